#!/bin/bash
# usage: try_wt.sh <property> <worktree of /repo> <mN> [tier] [extra properties...]
# Like try_mutant.sh, but works in a scratch worktree (VERIF_REPO) with a private
# VERIF_DIR, so several trials can run side by side and /repo, /verif/evidence and
# /verif/replays are never touched. The worktree is restored afterwards.
set -u
export GOFLAGS=-mod=mod GOPROXY=off GOSUMDB=off GOTOOLCHAIN=local
P=$1; W=$2; M=$3; TIER=${4:-quick}; shift 4 2>/dev/null || shift $#
EXTRA="$@"
D=$W/mutants
V=$(mktemp -d /tmp/r7v.XXXXXX)
cp -r /verif/harness $V/harness; cp /verif/KNOWN_FINDINGS.txt $V/
cd $W || exit 9
git checkout -- . ; rm -f zz_*_demo_test.go
restore() { git -C $W checkout -- . ; rm -f $W/zz_*_demo_test.go; rm -rf $V; }
trap restore EXIT
cp "$D/${M}_demo_test.go.txt" zz_${M}_demo_test.go
echo "clean tree + demo: $(go test -vet=off -count=1 ./... 2>&1 | tail -1)"
rm -f zz_${M}_demo_test.go
if ! git apply "$D/$M.diff"; then echo "PATCH DOES NOT APPLY"; exit 8; fi
echo "files: $(git diff --stat | tail -1)"
echo "mutant + suite:    $(go test -vet=off -count=1 ./... 2>&1 | tail -1)"
cp "$D/${M}_demo_test.go.txt" zz_${M}_demo_test.go
echo "mutant + demo:     $(go test -vet=off -count=1 ./... 2>&1 | grep -E '^(ok|FAIL|---|panic|fatal)' | head -3 | tr '\n' ' ')"
rm -f zz_${M}_demo_test.go
for Q in $P $EXTRA; do
  OUT=$(VERIF_REPO=$W VERIF_DIR=$V ${GOSX:-/verif/bin/gosx} check $Q --tier $TIER 2>&1); RC=$?
  echo "check $Q ($TIER): exit=$RC  $(echo "$OUT" | grep -c '^VIOLATION') violations, $(echo "$OUT" | grep -c '^INCONCLUSIVE') inconclusive"
  echo "$OUT" | grep -E "^  key=" | head -5
  echo "$OUT" | grep -E "^INCONCLUSIVE" | head -2 | cut -c1-300
done
