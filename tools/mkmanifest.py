#!/usr/bin/env python3
"""Regenerates /verif/MANIFEST.json from the table below (claimed properties) and
the not-applicable reasons. Run after adding or dropping a check."""
import json, subprocess, sys

CLAIMED = {
 # id: (design_ref, level text, level_note)
}
NA = {}

exec(open('/verif/tools/manifest_table.py').read())

TECH = "solver-based bounded symbolic execution of go/ssa (SMT bit-vectors, z3)"
def check(pid, text, note):
    return {
        "property_id": pid,
        "quick_cmd": f"/verif/bin/gosx check {pid} --tier quick",
        "thorough_cmd": f"/verif/bin/gosx check {pid} --tier thorough",
        "evidence_file": f"/verif/evidence/{pid}.json",
        "replay_cmd_template": "/verif/bin/gosx replay {path}",
        "engine": "gosx",
        "level_claimed": {"category": "model_checking", "text": text, "design_ref": f"DESIGN.md §4 {pid}"},
        "level_note": note,
        "technique": TECH,
    }

m = {
 "version": 1,
 "setup_cmd": "cd /verif/engine && GOFLAGS=-mod=mod GOPROXY=off GOSUMDB=off GOTOOLCHAIN=local go build -o /verif/bin/gosx ./cmd/gosx",
 "hooks": HOOKS,
 "engines": [{
   "name": "gosx", "path": "/verif/engine", "serves_properties": sorted(CLAIMED),
   "kind_free_text": "bounded symbolic executor for Go written for this task: go/ssa (x/tools v0.29.0) of /repo's working tree is interpreted with bit-vector terms for scalars; every data-dependent branch, bounds check and assertion is decided by z3 (one `z3 -in` per worker, push/pop); counterexamples and all passing paths are replayed against the natively compiled package"}],
 "checks": [check(pid, *CLAIMED[pid]) for pid in sorted(CLAIMED)],
 "not_applicable": [{"property_id": pid, "reason": NA[pid]} for pid in sorted(NA)],
 "notes": NOTES,
}
allp = {"C%02d" % i for i in range(1, 21)}
assert set(CLAIMED) | set(NA) == allp and not (set(CLAIMED) & set(NA)), (allp - set(CLAIMED) - set(NA))
json.dump(m, open('/verif/MANIFEST.json', 'w'), indent=1)
print("claimed:", sorted(CLAIMED)); print("not applicable:", sorted(NA))
