#!/bin/bash
# usage: try_mutant.sh <property> <dir with mN.diff / mN_demo_test.go.txt / mN.md> <mN> [tier] [extra properties...]
# Applies a seeded change to /repo, confirms (suite passes, demo fails with / passes without),
# runs the property's check, and ALWAYS restores /repo.
set -u
export GOFLAGS=-mod=mod GOPROXY=off GOSUMDB=off GOTOOLCHAIN=local
P=$1; D=$2; M=$3; TIER=${4:-quick}; shift 4 2>/dev/null || shift $#
EXTRA="$@"
cd /repo || exit 9
if [ -n "$(git status --porcelain)" ]; then echo "REPO NOT CLEAN"; exit 9; fi
restore() { git -C /repo checkout -- . ; rm -f /repo/zz_${M}_demo_test.go; }
trap restore EXIT
cp "$D/${M}_demo_test.go.txt" /repo/zz_${M}_demo_test.go
DEMO_CLEAN=$(go test -vet=off -count=1 ./... 2>&1 | tail -1)
echo "clean tree + demo: $DEMO_CLEAN"
rm -f /repo/zz_${M}_demo_test.go
if ! git apply "$D/$M.diff"; then echo "PATCH DOES NOT APPLY"; exit 8; fi
SUITE=$(go test -vet=off -count=1 ./... 2>&1 | tail -1)
echo "mutant + suite:    $SUITE"
cp "$D/${M}_demo_test.go.txt" /repo/zz_${M}_demo_test.go
DEMO_MUT=$(go test -vet=off -count=1 ./... 2>&1 | grep -E "^(ok|FAIL|---)" | head -3 | tr '\n' ' ')
echo "mutant + demo:     $DEMO_MUT"
rm -f /repo/zz_${M}_demo_test.go
for Q in $P $EXTRA; do
  OUT=$(/verif/bin/gosx check $Q --tier $TIER 2>&1); RC=$?
  echo "check $Q ($TIER): exit=$RC  $(echo "$OUT" | grep -c '^VIOLATION') violations, $(echo "$OUT" | grep -c '^INCONCLUSIVE') inconclusive"
  echo "$OUT" | grep -E "^  key=" | head -5
  echo "$OUT" | grep -E "^INCONCLUSIVE" | head -2 | cut -c1-300
done
