# Table read by mkmanifest.py
COMMON_NOTE = ("trusted: the SSA executor and its models of external packages (every explored path and every "
  "counterexample is re-run against the natively compiled package; disagreement = inconclusive, never a verdict), "
  "z3 4.8.12; nothing is claimed beyond the shape bounds recorded in the evidence file")
LEVEL = ("bounded symbolic model checking of the real code: the harness drives the API from a symbolic state; "
  "ints, option bits, capacities, flags and verdicts are solver variables, so each discharged query covers all of "
  "their values at once; shapes (lengths, nil patterns, kinds of element) are enumerated up to the stated bound. ")
HOOKS = {
  "guard": "verif",
  "enable": "no source hook is needed so far: harnesses are injected into package stackage through go/packages and `go test -overlay` (files /repo/zz_verif_*.go exist only virtually); build tag `verif` is reserved for the C10 schedule hook",
  "baseline_off_cmd": "cd /repo && GOFLAGS=-mod=mod GOPROXY=off GOSUMDB=off go test -vet=off -count=1 ./...",
  "source_commits": [],
  "add_only": True,
}
NOTES = "fix: commits in /repo and known findings are listed in /verif/KNOWN_FINDINGS.txt; DESIGN.md §9 records bound changes and oracle corrections"
CLAIMED = {
 "C01": (LEVEL + "One inductive step from an arbitrary state satisfying the representation invariant plus bounded histories from the constructors; the oracle is a plain list.", COMMON_NOTE + "; inductive hypothesis Inv as stated in DESIGN §3.11"),
 "C03": (LEVEL + "Capacity field is a solver variable around the boundary; growth and shrinkage steps; Cap/Avail/IsFull arithmetic asserted after every step.", COMMON_NOTE),
 "C08": (LEVEL + "Every int argument is an unconstrained 64-bit variable (MinInt, -1, Len, MaxInt are found by the solver, not listed).", COMMON_NOTE),
 "C13": (LEVEL + "No-nesting bit and all other option bits symbolic; every mix of offered value kinds (primitive, nil, Stack, three alias forms, Condition) by fork; reflective alias detection runs in the engine's reflect model and is confirmed natively.", COMMON_NOTE),
 "C15": (LEVEL + "Destination capacity field is a solver variable spanning too-small to ample; source/destination lengths enumerated; all destination variants (Stack, alias, pointer, read-only, zero, foreign, nil).", COMMON_NOTE),
 "C18": (LEVEL + "The option word (2^8 states) and the log-level mask (2^16) are solver variables, so a wrong mask constant or operator is found for whichever neighbouring bit it corrupts; strings and encapsulation characters are symbolic bytes.", COMMON_NOTE),
 "C17": (LEVEL + "Every exported method and package-level function is enumerated from go/types method sets of the tree under test at run time (a method added later is covered automatically) and called on zero / freed / Init()-only receivers with symbolic ints and bools and a catalogue of awkward values.", COMMON_NOTE),
 "C09": (LEVEL + "Every exported method of the tree under test (enumerated at run time) is called on a read-only receiver with nested content; a deep snapshot of every configuration field, closure identity and nested instance is compared before/after by solver-decided assertions.", COMMON_NOTE),
 "C11": (LEVEL + "Every exported non-mutator is run with the engine's write log armed: any store into memory that existed before the call (receiver graph and package globals) is a violation on every explored path, which is what makes concurrent readers race-free; such a finding is confirmed natively by running the query from two goroutines under the Go race detector.", COMMON_NOTE + "; the concurrency claim is the inference no-write => no race among readers (Go memory model), not a free-running stress run"),
 "C06": (LEVEL + "One setter call from an arbitrary Condition state plus bounded setter histories; the built-in operator code offered is an 8-bit solver variable (the valid range 1..6 is found, not listed); Valid/String equivalence and the rendering grammar asserted in every state.", COMMON_NOTE),
 "C07": (LEVEL + "Traverse is compared with a reference walker built only from Index/ConvertStack/ConvertCondition/Expression on enumerated tree shapes; every index of the path is an unconstrained 64-bit variable and every node's negative/forward index bits are symbolic.", COMMON_NOTE),
 "C14": (LEVEL + "Each consultation of the installed push policy returns an arbitrary boolean (solver variable), so all accept/reject predicates over the batch are covered; a call log is compared with the documented consult-once-in-order-while-room-remains loop; closure verdicts for Valid/IsEqual are symbolic.", COMMON_NOTE),
 "C16": (LEVEL + "Inputs are enumerated as every combination of entry kinds up to the width bound (flat inputs, CONDITION rows, envelopes) plus seeded nested junk trees; built-in operator codes in the input are 8-bit solver variables; the error-or-usable-stack disjunction is asserted on every path.", COMMON_NOTE),
 "C04": (LEVEL + "Unmarshal's shape, the Marshal reconstruction (parallel structural walk), deep equality of the second Unmarshal and two-way IsEqual are asserted on enumerated trees whose leaf ints/bools, root fold bit and first operator code are solver variables.", COMMON_NOTE),
 "C19": (LEVEL + "Every nil/non-nil pattern up to the length bound is enumerated; the scan limit is any int above the longest nil run and the index-option bits are symbolic. Defrag is genuinely broken for (nearly) every pattern that contains a nil and cannot be repaired without failing the repository's own test, so those patterns are listed as known findings; the check still reports a different failure of a listed pattern (panic, error, corrupted configuration) and any failure of an unlisted one.", COMMON_NOTE),
 "C20": (LEVEL + "Reveal is run on enumerated trees (single-child chains favoured) with the parenthetical bit of every Stack/Condition and all index-option bits as solver variables; leaf sequence, depth, survival of parenthetical/NOT nodes, equality of fully-unwrapped normal forms and lock release are asserted; self-deadlock is detected by the engine's lock table.", COMMON_NOTE),
 "C05": (LEVEL + "Two trees are built independently from one description; every scalar leaf exists twice as a pair of 64-bit solver variables, so a comparison that ignores some position is refuted by the solver choosing equal values everywhere else; the verdict is asserted equivalent (both directions) to a reference comparison over the closed leaf-type universe.", COMMON_NOTE + "; reflect is modelled (engine/symx/reflectm.go) and every path is confirmed natively"),
}
_pending = "check not built yet in this round (solver-based harness planned, DESIGN.md §4); not a statement that the technique cannot apply"
NA = {("C%02d" % i): _pending for i in range(1, 21) if ("C%02d" % i) not in CLAIMED}
