#!/bin/bash
# usage: try_seeded.sh <seeded id> [tier] [extra properties...]
# Applies /verif/seeded/<id>/patch.diff to /repo, runs the property's check, restores /repo.
export GOFLAGS=-mod=mod GOPROXY=off GOSUMDB=off GOTOOLCHAIN=local
id=$1; P=${id%%-*}; d=/verif/seeded/$id; tier=${2:-quick}; shift 2 2>/dev/null || shift $#
tmp=$(mktemp -d /verif/.work/seedXXXX)
cp $d/patch.diff $tmp/m.diff; cp $d/demo_test.go.txt $tmp/m_demo_test.go.txt
/verif/tools/try_mutant.sh $P $tmp m $tier "$@" 2>&1
rm -rf $tmp
