#!/bin/bash
# Runs every seeded change under /verif/seeded against the check of its property
# (quick tier) and prints one line per change. /repo is restored after each.
export GOFLAGS=-mod=mod GOPROXY=off GOSUMDB=off GOTOOLCHAIN=local
for d in /verif/seeded/*/; do
  id=$(basename $d); P=${id%%-*}
  tmp=$(mktemp -d /verif/.work/seedXXXX)
  cp $d/patch.diff $tmp/m.diff; cp $d/demo_test.go.txt $tmp/m_demo_test.go.txt
  out=$(/verif/tools/try_mutant.sh $P $tmp m ${1:-quick} 2>&1)
  rm -rf $tmp
  echo "$id: $(echo "$out" | grep '^check' | head -1)"
done
