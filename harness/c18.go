package stackage

// C18 — options are independent switches with faithful getters.

var vhStackBits = []cfgFlag{parens, cfold, nspad, lonce, negidx, fwdidx, nnest, ronly}

// vhCallStackSetter calls setter #which (alias = deprecated spelling) in
// mode 0 (true), 1 (false) or 2 (no argument = toggle).
func vhCallStackSetter(s Stack, which, alias, mode int) {
	var args []bool
	switch mode {
	case 0:
		args = []bool{true}
	case 1:
		args = []bool{false}
	}
	switch which*2 + alias {
	case 0:
		s.SetParen(args...)
	case 1:
		s.Paren(args...)
	case 2:
		s.SetFold(args...)
	case 3:
		s.Fold(args...)
	case 4:
		s.SetNoPadding(args...)
	case 5:
		s.NoPadding(args...)
	case 6:
		s.SetLeadOnce(args...)
	case 7:
		s.LeadOnce(args...)
	case 8:
		s.SetNegativeIndices(args...)
	case 9:
		s.NegativeIndices(args...)
	case 10:
		s.SetForwardIndices(args...)
	case 11:
		s.ForwardIndices(args...)
	case 12:
		s.SetNoNesting(args...)
	case 13:
		s.NoNesting(args...)
	case 14:
		s.SetReadOnly(args...)
	case 15:
		s.ReadOnly(args...)
	}
}

func vhApplyMode(opt, bit cfgFlag, mode int) cfgFlag {
	switch mode {
	case 0:
		return opt | bit
	case 1:
		return opt &^ bit
	}
	return opt ^ bit
}

// p: k (calls), aliases (0/1), n (content length)
func VH_C18_Bits(p []int) {
	vhPreMode = 2 // also with an error on record: the switches do not care
	pre := vhArbitraryStack(p[2], 0, false, vhOptMask&^ronly, 2, 2)
	cfg := pre.cfg
	want := cfg.opt
	for step := 0; step < p[0]; step++ {
		which := nondetChoice(8)
		alias := 0
		if p[1] == 1 {
			alias = nondetChoice(2)
		}
		mode := nondetChoice(3)
		snap := vhSnapCfg(cfg)
		vhCallStackSetter(pre.s, which, alias, mode)
		bit := vhStackBits[which]
		if want&ronly == 0 || bit == ronly {
			want = vhApplyMode(want, bit, mode)
		}
		after := vhSnapCfg(cfg)
		verifAssert(after.opt == want, "bit-algebra")
		snap.opt = want
		vhAssertCfgSame(snap, after, "others")
		vhAssertContent(pre.s, pre.model, "content")
		verifAssert(pre.s.IsParen() == (want&parens != 0), "IsParen")
		verifAssert(pre.s.IsPadded() == (want&nspad == 0), "IsPadded")
		verifAssert(pre.s.IsReadOnly() == (want&ronly != 0), "IsReadOnly")
		verifAssert(pre.s.CanNest() == (want&nnest == 0), "CanNest")
	}
	verifReach("end")
}

var vhCondBits = []cfgFlag{parens, nspad, nnest, ronly}

func vhCallCondSetter(c Condition, which, alias, mode int) {
	var args []bool
	switch mode {
	case 0:
		args = []bool{true}
	case 1:
		args = []bool{false}
	}
	switch which*2 + alias {
	case 0:
		c.SetParen(args...)
	case 1:
		c.Paren(args...)
	case 2:
		c.SetNoPadding(args...)
	case 3:
		c.NoPadding(args...)
	case 4:
		c.SetNoNesting(args...)
	case 5:
		c.NoNesting(args...)
	case 6, 7:
		c.SetReadOnly(args...)
	}
}

// vhArbitraryCond builds an initialised Condition with symbolic option bits.
func vhArbitraryCond(optMask cfgFlag) Condition {
	c := Cond("kw", Eq, "ex")
	c.condition.cfg.opt = cfgFlag(nondetUint16()) & optMask
	return c
}

// p: k (calls), aliases
func VH_C18_CondBits(p []int) {
	c := vhArbitraryCond((parens | nspad | nnest) &^ ronly)
	cfg := c.condition.cfg
	if nondetChoice(2) == 1 {
		cfg.err = errorf("left behind by an earlier call") // the switches do not care
	}
	want := cfg.opt
	for step := 0; step < p[0]; step++ {
		which := nondetChoice(4)
		alias := 0
		if p[1] == 1 {
			alias = nondetChoice(2)
		}
		mode := nondetChoice(3)
		snap := vhSnapCfg(cfg)
		vhCallCondSetter(c, which, alias, mode)
		bit := vhCondBits[which]
		if want&ronly == 0 || bit == ronly {
			want = vhApplyMode(want, bit, mode)
		}
		after := vhSnapCfg(cfg)
		verifAssert(after.opt == want, "bit-algebra")
		snap.opt = want
		vhAssertCfgSame(snap, after, "others")
		verifAssert(c.Keyword() == "kw", "kw")
		verifAssert(vhSame(c.Expression(), "ex"), "ex")
		verifAssert(c.IsParen() == (want&parens != 0), "IsParen")
		verifAssert(c.IsPadded() == (want&nspad == 0), "IsPadded")
		verifAssert(c.IsReadOnly() == (want&ronly != 0), "IsReadOnly")
		verifAssert(c.CanNest() == (want&nnest == 0), "CanNest")
	}
	verifReach("end")
}

// vhLevelArg produces one log-level argument: a LogLevel with an arbitrary
// 16-bit value, an int in [0,65535], or a known name.
func vhLevelArg() (arg any, mask logLevels, usable bool) {
	switch nondetChoice(4) {
	case 0:
		v := nondetUint16()
		return LogLevel(v), logLevels(v), true
	case 1:
		// any int: values outside the 16 bits of the level set select nothing
		v := nondetInt()
		if v < 0 || v > 65535 {
			return v, 0, false
		}
		return v, logLevels(v), true
	case 3:
		// an unknown name, nil or a value of an unsupported type selects no
		// level at all: the call must neither set nor clear anything
		return []any{"bogus", nil, 3.5, ""}[nondetChoice(4)], 0, false
	}
	names := []string{"none", "CALLS", "Policy", "state", "DEBUG", "error", "trace", "user1", "USER10", "all"}
	vals := []logLevels{0, 1, 2, 4, 8, 16, 32, 64, 32768, 65535}
	k := nondetChoice(len(names))
	return names[k], vals[k], true
}

// p: nargs (1..2), target (0 stack, 1 condition), unset (0/1)
func VH_C18_Log(p []int) {
	var cfg *nodeConfig
	var s Stack
	var c Condition
	if p[1] == 0 {
		vhPreMode = 2
		pre := vhArbitraryStack(0, 0, false, vhOptMask&^ronly, 0, 0)
		s, cfg = pre.s, pre.cfg
	} else {
		c = vhArbitraryCond(vhOptMask &^ ronly)
		cfg = c.condition.cfg
	}
	cfg.log.lvl = logLevels(nondetUint16())
	want := cfg.log.lvl
	args := make([]any, p[0])
	vals := make([]logLevels, p[0])
	usable := make([]bool, p[0])
	for k := range args {
		args[k], vals[k], usable[k] = vhLevelArg()
	}
	snap := vhSnapCfg(cfg)
	if p[2] == 0 {
		if p[1] == 0 {
			s.SetLogLevel(args...)
		} else {
			c.SetLogLevel(args...)
		}
		for k, v := range vals {
			if !usable[k] {
				continue
			}
			if v == 0 {
				want = 0
				break
			}
			if v == 65535 {
				want = 65535
				break
			}
			want |= v
		}
	} else {
		if p[1] == 0 {
			s.UnsetLogLevel(args...)
		} else {
			c.UnsetLogLevel(args...)
		}
		for k, v := range vals {
			if v == 0 || !usable[k] {
				continue // "none" or nothing at all: nothing to remove
			}
			if v == 65535 {
				want = 0 // "all": remove everything (doc comment of unshift)
				break
			}
			want &^= v
		}
	}
	after := vhSnapCfg(cfg)
	verifAssert(after.lvl == want, "level-algebra")
	snap.lvl = want
	vhAssertCfgSame(snap, after, "others")
	// choosing another logger afterwards leaves the levels (and everything else) alone
	dest := []any{"stderr", "stdout", "off", 2}[nondetChoice(4)]
	if p[1] == 0 {
		s.SetLogger(dest)
	} else {
		c.SetLogger(dest)
	}
	relog := vhSnapCfg(cfg)
	verifAssert(relog.lvl == want, "levels-survive-SetLogger")
	snap.logger = relog.logger
	vhAssertCfgSame(snap, relog, "others-after-SetLogger")
	verifReach("end")
}

// p: which (0 none, 1 one level, 2 two levels, 3 all) — LogLevels() text.
func VH_C18_LogText(p []int) {
	s := List()
	switch p[0] {
	case 0:
		verifAssert(s.LogLevels() == "NONE", "none")
	case 1:
		s.SetLogLevel(LogLevel4)
		verifAssert(s.LogLevels() == "DEBUG", "one")
	case 2:
		s.SetLogLevel("trace", LogLevel1)
		verifAssert(s.LogLevels() == "CALLS,TRACE", "two")
		s.UnsetLogLevel("calls")
		verifAssert(s.LogLevels() == "TRACE", "unset")
	case 3:
		s.SetLogLevel(AllLogLevels)
		verifAssert(s.LogLevels() == "ALL", "all")
	}
	c := Cond("k", Eq, "v")
	c.SetLogLevel(UserLogLevel2, "ERROR")
	verifAssert(c.LogLevels() == "ERROR,USER2", "cond")
	verifReach("end")
}

func vhAssumeASCII(s string) {
	for i := 0; i < len(s); i++ {
		verifAssume(s[i] < 0x80)
	}
}

// p: which (0 id, 1 category, 2 delimiter, 3 symbol), len
func VH_C18_Text(p []int) {
	pre := vhArbitraryStack(2, 0, false, vhOptMask&^(ronly|lonce), 0, 0)
	s, cfg := pre.s, pre.cfg
	txt := verifString(p[1])
	vhAssumeASCII(txt)
	snap := vhSnapCfg(cfg)
	switch p[0] {
	case 0:
		s.SetID(txt)
		verifAssert(s.ID() == txt, "id-getter")
		snap.id = txt
	case 1:
		s.SetCategory(txt)
		verifAssert(s.Category() == txt, "category-getter")
		snap.cat = txt
	case 2:
		s.SetDelimiter(txt)
		if cfg.typ == list {
			verifAssert(s.Delimiter() == txt, "delimiter-getter")
			snap.ljc = txt
		} else {
			verifAssert(s.Delimiter() == "", "delimiter-nonlist-ignored")
		}
		if len(p) > 2 && p[2] == 1 {
			// a rune sets it as well; "", the NUL rune and nil unset it (documented)
			s.SetDelimiter(rune(';'))
			if cfg.typ == list {
				verifAssert(s.Delimiter() == ";", "delimiter-rune")
			}
			// a value that is neither text nor rune nor nil is no instruction at all
			s.SetDelimiter(5)
			s.SetDelimiter(3.5)
			if cfg.typ == list {
				verifAssert(s.Delimiter() == ";", "delimiter-unsupported-type-ignored")
			}
			switch nondetChoice(3) {
			case 0:
				s.SetDelimiter("")
			case 1:
				s.SetDelimiter(rune(0))
			default:
				s.SetDelimiter(nil)
			}
			verifAssert(s.Delimiter() == "", "delimiter-unset")
			snap.ljc = ""
		}
	case 3:
		s.SetSymbol(txt)
		if cfg.typ != list {
			verifAssert(cfg.sym == txt, "symbol-stored")
			if txt != "" {
				// shown as given, whatever the case-folding option says
				verifAssert(s.Kind() == txt, "symbol-shown-verbatim")
			}
			if len(p) > 2 && p[2] == 1 {
				// given in pieces (runes and strings mixed), kept whole
				s.SetSymbol('<', txt, '>', "!")
				verifAssert(cfg.sym == "<"+txt+">!", "symbol-in-pieces")
				s.SetSymbol(txt)
			}
			snap.sym = txt
		} else {
			verifAssert(cfg.sym == "", "symbol-list-ignored")
		}
	}
	vhAssertCfgSame(snap, vhSnapCfg(cfg), "others")
	vhAssertContent(s, pre.model, "content")
	vhAssertUnlocked(s, "after")
	verifReach("end")
}

// p: target (0 stack, 1 condition)
func VH_C18_Encap(p []int) {
	var cfg *nodeConfig
	var s Stack
	var c Condition
	if p[0] == 0 {
		s = And().Push("a")
		cfg, _ = s.config()
	} else {
		c = Cond("k", Eq, "v")
		cfg = c.condition.cfg
	}
	a, b := verifString(1), verifString(1)
	l, r := verifString(1), verifString(1)
	set := func(x ...any) {
		if p[0] == 0 {
			s.SetEncap(x...)
		} else {
			c.SetEncap(x...)
		}
	}
	isEncap := func() bool {
		if p[0] == 0 {
			return s.IsEncap()
		}
		return c.IsEncap()
	}
	verifAssert(!isEncap(), "initially-none")
	set(a)
	verifAssert(len(cfg.enc) == 1, "first-accepted")
	verifAssert(isEncap(), "IsEncap")
	set(b)
	if a == b {
		verifAssert(len(cfg.enc) == 1, "duplicate-single-refused")
	} else {
		verifAssert(len(cfg.enc) == 2, "second-accepted")
	}
	before := len(cfg.enc)
	set([]string{l, r})
	reuse := l == a || l == b || r == a || r == b
	if reuse {
		verifAssert(len(cfg.enc) == before, "pair-reusing-char-refused")
	} else {
		verifAssert(len(cfg.enc) == before+1, "pair-accepted")
	}
	// an empty or over-long set of characters adds nothing usable
	before = len(cfg.enc)
	set([]string{})
	verifAssert(len(cfg.enc) == before, "empty-set-adds-nothing")
	set([]string{"x", "y", "z"})
	verifAssert(len(cfg.enc) == before, "three-characters-are-no-pair")
	set()
	verifAssert(len(cfg.enc) == 0, "cleared")
	verifAssert(!isEncap(), "IsEncap-cleared")
	verifReach("end")
}

// FIFO latch and auxiliary map.
func VH_C18_FifoAux(p []int) {
	pre := vhArbitraryStack(1, 0, false, vhOptMask&^ronly, 2, 2)
	s, cfg := pre.s, pre.cfg
	old := cfg.ord
	b1, b2 := nondetBool(), nondetBool()
	snap := vhSnapCfg(cfg)
	s.SetFIFO(b1)
	s.SetFIFO(b2)
	verifAssert(s.IsFIFO() == (old || b1 || b2), "fifo-latch")
	snap.ord = old || b1 || b2
	vhAssertCfgSame(snap, vhSnapCfg(cfg), "fifo-others")
	aux := Auxiliary{"k": 7}
	s.SetAuxiliary(aux)
	got := s.Auxiliary()
	v, ok := got.Get("k")
	verifAssert(ok, "aux-get")
	verifAssert(vhSame(v, 7), "aux-value")
	got.Set("z", 1)
	verifAssert(aux.Len() == 2, "aux-same-map")
	empty := make(Auxiliary)
	s.SetAuxiliary(empty)
	s.Auxiliary().Set("late", 1)
	verifAssert(empty.Len() == 1, "aux-empty-map-kept-by-identity")
	s.SetAuxiliary(nil)
	verifAssert(s.Auxiliary() != nil && s.Auxiliary().Len() == 0, "aux-nil-allocates")
	s.SetAuxiliary()
	verifAssert(s.Auxiliary() != nil, "aux-default-alloc")
	verifAssert(s.Auxiliary().Len() == 0, "aux-default-empty")
	vhAssertContent(s, pre.model, "content")
	vhAssertUnlocked(s, "after")
	verifReach("end")
}

// The read-only switch alters nothing an observer can see: every exported
// method that is not a mutator answers the same with the flag off and on
// (IsReadOnly itself excepted).  p: method index, receiver variant, 0 Stack / 1 Condition
func VH_C18_ReadOnlyTransparent(p []int) {
	vhAnyLimit = 12
	var name string
	var r1, r2 []any
	if p[2] == 0 {
		m := vhAutoStack[p[0]]
		name = m.name
		verifCase(name)
		s, cfg := vhRich(p[1], vhOptMask&^ronly)
		call := m.prepS()
		h := s
		r1 = call(&h)
		cfg.opt |= ronly
		r2 = call(&h)
	} else {
		m := vhAutoCond[p[0]]
		name = m.name
		verifCase(name)
		c := vhRichCond(p[1], vhOptMask&^ronly)
		call := m.prepC()
		h := c
		r1 = call(&h)
		c.condition.cfg.opt |= ronly
		r2 = call(&h)
	}
	verifAssert(len(r1) == len(r2), "arity")
	if len(r1) == len(r2) && name != "Stack.IsReadOnly" && name != "Condition.IsReadOnly" && name != "Stack.Addr" && name != "Condition.Addr" {
		for i := range r1 {
			verifAssert(vhResultSame(r1[i], r2[i]), "same-answer-read-only-or-not")
		}
	}
	verifReach("end")
}
