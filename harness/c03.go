package stackage

// C03 — a Stack created with capacity k never holds more than k elements.

// vhAssertCapacity checks the user-facing capacity arithmetic.
func vhAssertCapacity(s Stack, cfg *nodeConfig, id string) {
	if cfg.cap != 0 {
		k := cfg.cap - 1
		verifAssert(s.Len() <= k, id+"/Len<=k")
		verifAssert(s.Cap() == k, id+"/Cap")
		verifAssert(s.Avail() == k-s.Len(), id+"/Avail")
		verifAssert(s.IsFull() == (s.Len() == k), id+"/IsFull")
	} else {
		verifAssert(s.Cap() == -1, id+"/Cap-unlimited")
		verifAssert(s.Avail() == -1, id+"/Avail-unlimited")
		verifAssert(!s.IsFull(), id+"/IsFull-unlimited")
	}
}

// p: n, slack, m, op    (op: 0 Push batch, 1 Insert, 2 Transfer-into,
// 3 Marshal-into, 4 Pop, 5 Remove, 6 Reset)
func VH_C03_Step(p []int) {
	n, m := p[0], p[2]
	vhPreMode = 2
	pre := vhArbitraryStack(n, p[1], false, vhOptMask, 2, 3)
	cfg := pre.cfg
	vhAssertCapacity(pre.s, cfg, "pre")
	capped := cfg.cap != 0
	free := 0
	if capped {
		free = cfg.cap - 1 - n
	}
	model := pre.model
	policy := len(p) > 4 && p[4] == 1
	if policy {
		// the limit must hold on the policy-guarded append path as well
		cfg.ppf = func(...any) error { return nil }
	}
	if cfg.opt&ronly != 0 {
		// a read-only stack: the capacity arithmetic keeps holding and
		// nothing below may change the content
		vhC03Op(pre.s, p[3], m, 0)
		vhAssertContent(pre.s, model, "read-only-unchanged")
		vhInv(pre.s, cfg, "inv")
		vhAssertCapacity(pre.s, cfg, "post")
		verifReach("end")
		return
	}
	switch p[3] {
	case 0:
		// value k of the batch is a nested Stack where bit k of p[5] is set: a
		// stack that refuses nesting skips it without using up room
		nest := 0
		if len(p) > 5 {
			nest = p[5]
		}
		vals := make([]any, m)
		for k := range vals {
			vals[k] = vhTokens[6+k]
			if nest&(1<<uint(k)) != 0 {
				vals[k] = vhWrapStack(Or().Push("nested"), k%3)
			}
		}
		pre.s.Push(vals...)
		for k := range vals {
			if capped && len(model) >= cfg.cap-1 {
				break
			}
			if _, isStack := vhStackOf(vals[k]); isStack && cfg.opt&nnest != 0 && !policy {
				continue
			}
			model = append(model, vals[k])
		}
		vhAssertContent(pre.s, model, "push-keeps-earliest")
	case 1:
		left := nondetInt()
		ok := pre.s.Insert("Z", left)
		if capped && free == 0 {
			verifAssert(!ok, "insert-full-fails")
			vhAssertContent(pre.s, model, "insert-full-unchanged")
		} else {
			verifAssert(ok, "insert-ok")
			verifAssert(pre.s.Len() == n+1, "insert-len")
		}
	case 2:
		src := Basic()
		for k := 0; k < m; k++ {
			src.Push(vhTokens[6+k])
		}
		_ = src.Transfer(pre.s)
		// whatever Transfer answers, the capacity must hold and the old
		// elements must still lead the content, in order
		verifAssert(pre.s.Len() >= n, "transfer-keeps-old")
		st := *pre.s.stack
		for k := 0; k < n && k+1 < len(st); k++ {
			verifAssert(vhSame(st[k+1], model[k]), "transfer-old-slot")
		}
	case 3:
		err := pre.s.Marshal([]any{"AND", "x", "y"})
		if cfg.opt&nnest != 0 && !policy {
			// the decoded Stack is refused like any other nested Stack
			verifAssert(pre.s.Len() == n, "marshal-refused-nesting-unchanged")
		} else if verifAssert(err == nil, "marshal-err"); !capped || free > 0 {
			verifAssert(pre.s.Len() == n+1, "marshal-adds-one")
		} else {
			verifAssert(pre.s.Len() == n, "marshal-full-unchanged")
		}
	case 4:
		pre.s.Pop()
	case 5:
		i := nondetInt()
		pre.s.Remove(i)
	case 6:
		pre.s.Reset()
		verifAssert(pre.s.Len() == 0, "reset-empties")
	}
	vhInv(pre.s, cfg, "inv")
	vhAssertCapacity(pre.s, cfg, "post")
	verifReach("end")
}

// vhC03Op applies operation op without looking at the outcome.
func vhC03Op(s Stack, op, m, nest int) {
	switch op {
	case 0:
		vals := make([]any, m)
		for k := range vals {
			vals[k] = vhTokens[6+k]
		}
		s.Push(vals...)
	case 1:
		s.Insert("Z", nondetInt())
	case 2:
		src := Basic().Push("t0", "t1")
		_ = src.Transfer(s)
	case 3:
		_ = s.Marshal([]any{"AND", "x", "y"})
	case 4:
		s.Pop()
	case 5:
		s.Remove(nondetInt())
	case 6:
		s.Reset()
	}
}

// p: k steps, m batch, capMax — grow and shrink around the boundary from a
// constructor, checking capacity arithmetic after every step.
func VH_C03_Hist(p []int) {
	s, cfg := vhCtor(p[2])
	c := cfg.cap
	if c > 0 {
		verifAssert(s.Cap() == c-1, "ctor-cap")
	}
	model := []any{}
	for step := 0; step < p[0]; step++ {
		op := nondetChoice(5)
		switch op {
		case 0, 1, 2, 3:
			model = vhListOp(s, cfg, model, op, p[1], "")
		case 4:
			src := List().Push("t0", "t1")
			before := s.Len()
			ok := src.Transfer(s)
			if ok {
				model = append(model, "t0", "t1")
			} else if s.Len() == before {
				// refused outright
			} else {
				// partial copy: C15 reports this; here only the bound matters
				st := *s.stack
				model = vhCopy(st[1:])
			}
		}
		vhInv(s, cfg, "inv")
		vhAssertCapacity(s, cfg, "cap")
		vhAssertContent(s, model, "content")
	}
	verifReach("end")
}
