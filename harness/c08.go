package stackage

// C08 — no index and no element value can panic or corrupt a Stack.
// Part (a): every int argument is an unconstrained 64-bit solver variable;
// the pre-state is an arbitrary Inv-stack (options, kind, FIFO, capacity
// symbolic; nil slots by fork; stale cells behind len).

// vhTranslate is the reference index translation of the statement: it
// returns the addressed position, or -1 when the index addresses nothing.
func vhTranslate(i, n int, neg, fwd bool) int {
	if n == 0 {
		return -1
	}
	if i >= 0 && i < n {
		return i
	}
	if i < 0 {
		if neg && i >= -n {
			return n + i
		}
		return -1
	}
	if fwd {
		return n - 1
	}
	return -1
}

func vhCopy(m []any) []any {
	c := make([]any, len(m))
	copy(c, m)
	return c
}

// p: n, slack
func VH_C08_Index(p []int) {
	vhPreMode = 2
	pre := vhArbitraryStack(p[0], p[1], true, vhOptMask, 2, 2)
	snap := vhSnapCfg(pre.cfg)
	i := nondetInt()
	neg, fwd := pre.cfg.opt&negidx != 0, pre.cfg.opt&fwdidx != 0
	v, ok := pre.s.Index(i)
	verifObserve("ok", ok)
	vhInv(pre.s, pre.cfg, "inv")
	vhAssertCfgSame(snap, vhSnapCfg(pre.cfg), "cfg")
	vhAssertContent(pre.s, pre.model, "content")
	pos := vhTranslate(i, pre.n, neg, fwd)
	if pos < 0 {
		verifAssert(!ok, "unaddressed-fails")
		verifAssert(v == nil, "unaddressed-nil")
	} else if pre.model[pos] == nil {
		verifAssert(!ok, "nil-slot-fails")
	} else {
		verifAssert(ok, "addressed-succeeds")
		verifAssert(vhSame(v, pre.model[pos]), "addressed-value")
	}
	verifReach("end")
}

// p: n, slack
func VH_C08_Replace(p []int) {
	vhPreMode = 2
	pre := vhArbitraryStack(p[0], p[1], true, vhOptMask&^ronly, 2, 2)
	snap := vhSnapCfg(pre.cfg)
	i := nondetInt()
	neg, fwd := pre.cfg.opt&negidx != 0, pre.cfg.opt&fwdidx != 0
	ok := pre.s.Replace("Z", i)
	verifObserve("ok", ok)
	vhInv(pre.s, pre.cfg, "inv")
	vhAssertCfgSame(snap, vhSnapCfg(pre.cfg), "cfg")
	want := vhCopy(pre.model)
	if i >= 0 && i < pre.n {
		verifAssert(ok, "in-range-succeeds")
		want[i] = "Z"
	} else if pos := vhTranslate(i, pre.n, neg, fwd); pos >= 0 && ok {
		// index options on: the statement allows the translated position
		want[pos] = "Z"
	} else {
		verifAssert(!ok, "unaddressed-fails")
	}
	vhAssertContent(pre.s, want, "content")
	verifReach("end")
}

// p: n, slack
func VH_C08_Swap(p []int) {
	vhPreMode = 2
	pre := vhArbitraryStack(p[0], p[1], true, vhOptMask&^ronly, 2, 2)
	snap := vhSnapCfg(pre.cfg)
	i, j := nondetInt(), nondetInt()
	neg, fwd := pre.cfg.opt&negidx != 0, pre.cfg.opt&fwdidx != 0
	pre.s.Swap(i, j)
	vhInv(pre.s, pre.cfg, "inv")
	vhAssertCfgSame(snap, vhSnapCfg(pre.cfg), "cfg")
	want := vhCopy(pre.model)
	if i >= 0 && i < pre.n && j >= 0 && j < pre.n {
		want[i], want[j] = want[j], want[i]
		vhAssertContent(pre.s, want, "content-swapped")
	} else {
		pi, pj := vhTranslate(i, pre.n, neg, fwd), vhTranslate(j, pre.n, neg, fwd)
		st := *pre.s.stack
		if pi >= 0 && pj >= 0 && pre.s.Len() == pre.n && !vhSame(st[pi+1], pre.model[pi]) {
			// index options on: the translated swap is acceptable
			want[pi], want[pj] = want[pj], want[pi]
		}
		vhAssertContent(pre.s, want, "content-unaddressed")
	}
	verifReach("end")
}

// p: n, slack
func VH_C08_Remove(p []int) {
	vhPreMode = 2
	pre := vhArbitraryStack(p[0], p[1], true, vhOptMask&^ronly, 2, 2)
	snap := vhSnapCfg(pre.cfg)
	i := nondetInt()
	neg, fwd := pre.cfg.opt&negidx != 0, pre.cfg.opt&fwdidx != 0
	v, ok := pre.s.Remove(i)
	verifObserve("ok", ok)
	vhInv(pre.s, pre.cfg, "inv")
	vhAssertCfgSame(snap, vhSnapCfg(pre.cfg), "cfg")
	pos := vhTranslate(i, pre.n, neg, fwd)
	if pos < 0 {
		verifAssert(!ok, "unaddressed-fails")
		verifAssert(v == nil, "unaddressed-nil")
		vhAssertContent(pre.s, pre.model, "content-unaddressed")
	} else if pre.model[pos] == nil {
		// a nil slot is not an "existing element" for Index-style lookups
		verifAssert(!ok, "nil-slot-fails")
		if pre.s.Len() == pre.n {
			vhAssertContent(pre.s, pre.model, "content-nil-slot")
		}
	} else {
		verifAssert(ok, "addressed-succeeds")
		verifAssert(vhSame(v, pre.model[pos]), "addressed-value")
		want := append(vhCopy(pre.model[:pos]), pre.model[pos+1:]...)
		vhAssertContent(pre.s, want, "content-removed")
	}
	verifReach("end")
}

// p: n, slack
func VH_C08_Insert(p []int) {
	vhPreMode = 2
	pre := vhArbitraryStack(p[0], p[1], true, vhOptMask&^ronly, 2, 2)
	snap := vhSnapCfg(pre.cfg)
	left := nondetInt()
	ok := pre.s.Insert("Z", left)
	verifObserve("ok", ok)
	vhInv(pre.s, pre.cfg, "inv")
	vhAssertCfgSame(snap, vhSnapCfg(pre.cfg), "cfg")
	full := pre.cfg.cap != 0 && pre.n+1 >= pre.cfg.cap
	if full {
		verifAssert(!ok, "full-fails")
		vhAssertContent(pre.s, pre.model, "content-full")
	} else {
		verifAssert(ok, "succeeds")
		at := left
		if at < 0 {
			at = 0
		}
		if at > pre.n {
			at = pre.n
		}
		want := append(vhCopy(pre.model[:at]), "Z")
		want = append(want, pre.model[at:]...)
		vhAssertContent(pre.s, want, "content-inserted")
	}
	verifReach("end")
}

// p: n, slack, pathlen — Traverse on a flat stack with arbitrary indices.
func VH_C08_Traverse(p []int) {
	vhPreMode = 2
	pre := vhArbitraryStack(p[0], p[1], true, vhOptMask, 2, 2)
	nested := len(p) > 3 && p[3] == 1 && pre.n > 0
	inner := Or().Push("n0", "n1")
	if nested {
		// position 0 holds a Stack: the only way down
		pre.model[0] = inner
		(*pre.s.stack)[1] = inner
	}
	snap := vhSnapCfg(pre.cfg)
	idx := make([]int, p[2])
	for k := range idx {
		idx[k] = nondetInt()
	}
	v, ok := pre.s.Traverse(idx...)
	verifObserve("ok", ok)
	vhInv(pre.s, pre.cfg, "inv")
	vhAssertCfgSame(snap, vhSnapCfg(pre.cfg), "cfg")
	vhAssertContent(pre.s, pre.model, "content")
	if len(idx) == 0 {
		verifAssert(!ok && v == nil, "empty-path-fails")
	}
	if len(idx) == 1 {
		neg, fwd := pre.cfg.opt&negidx != 0, pre.cfg.opt&fwdidx != 0
		pos := vhTranslate(idx[0], pre.n, neg, fwd)
		if pos < 0 || pre.model[pos] == nil {
			verifAssert(!ok, "unaddressed-fails")
			verifAssert(v == nil, "unaddressed-nil")
		} else {
			verifAssert(ok, "addressed-succeeds")
			verifAssert(vhSame(v, pre.model[pos]), "addressed-value")
		}
	}
	if len(idx) >= 2 && !nested {
		// every element of a flat stack is a leaf: longer paths must fail
		verifAssert(!ok, "leaf-not-descendable")
		verifAssert(v == nil, "leaf-not-descendable-nil")
	}
	if len(idx) == 2 && nested {
		neg, fwd := pre.cfg.opt&negidx != 0, pre.cfg.opt&fwdidx != 0
		if pos := vhTranslate(idx[0], pre.n, neg, fwd); pos == 0 && (idx[1] == 0 || idx[1] == 1) {
			verifAssert(ok, "nested-addressed-succeeds")
			verifAssert(vhSame(v, []any{"n0", "n1"}[idx[1]]), "nested-addressed-value")
		} else {
			// a first index that addresses nothing (or a leaf) ends the walk:
			// later indices are never applied to some other level
			verifAssert(!ok, "nested-unaddressed-fails")
			verifAssert(v == nil, "nested-unaddressed-nil")
		}
	}
	verifReach("end")
}

// p: n, slack — Less and Defrag take arbitrary ints and must not panic.
func VH_C08_LessDefrag(p []int) {
	vhPreMode = 2
	pre := vhArbitraryStack(p[0], p[1], true, vhOptMask&^ronly, 2, 2)
	snap := vhSnapCfg(pre.cfg)
	i, j := nondetInt(), nondetInt()
	_ = pre.s.Less(i, j)
	vhInv(pre.s, pre.cfg, "less-inv")
	vhAssertCfgSame(snap, vhSnapCfg(pre.cfg), "less-cfg")
	vhAssertContent(pre.s, pre.model, "less-content")
	verifReach("less")
	m := nondetInt()
	pre.s.Defrag(m)
	vhInv(pre.s, pre.cfg, "defrag-inv")
	verifReach("end")
}

// p: kind — constructors with an arbitrary capacity argument (bounded to 64:
// larger values only change an allocation size).
func VH_C08_Ctor(p []int) {
	c := nondetInt()
	verifAssume(c <= 64)
	var s Stack
	switch p[0] {
	case 0:
		s = And(c)
	case 1:
		s = Or(c)
	case 2:
		s = Not(c)
	case 3:
		s = List(c)
	default:
		s = Basic(c)
	}
	verifAssert(s.IsInit(), "init")
	verifAssert(s.Len() == 0, "empty")
	if c > 0 {
		verifAssert(s.Cap() == c, "cap")
		verifAssert(s.Avail() == c, "avail")
	} else {
		verifAssert(s.Cap() == -1, "nocap")
		verifAssert(s.Avail() == -1, "noavail")
	}
	verifAssert(!s.IsFull(), "notfull")
	s.Push("a")
	verifAssert(s.Len() == 1, "push1")
	verifReach("end")
}

// Part (b): every method that takes values, with the catalogue of awkward Go
// values (typed nils, zero structs, funcs, chans, maps, NaN, private-field
// structs, pointers to pointers), on an initialised receiver.
// p: method index, variant, kind (0 AND, 1 LIST), max variadic length
func VH_C08_StackValues(p []int) {
	m := vhAutoStack[p[0]]
	verifCase(m.name)
	s, cfg := vhRich(p[1], 0)
	if p[2] == 0 {
		verifAssume(cfg.typ == and)
	} else {
		verifAssume(cfg.typ == list)
	}
	vhVarMax = p[3]
	h := s
	_ = m.callS(&h)
	if m.name != "Stack.Free" {
		verifAssert(h.stack == s.stack, "handle")
	}
	// the stack stays initialised and usable
	vhInv(s, cfg, "inv")
	k := s.Kind()
	verifAssert(k != badStack, "kind-readable")
	n := s.Len()
	for i := 0; i < n; i++ {
		s.Index(i)
		// every walker must cope with whatever value now sits at i
		s.Traverse(i, 0)
		s.Traverse(i, 0, 0)
	}
	_ = s.String()
	_, _ = s.Unmarshal()
	_ = s.IsNesting()
	_ = s.IsEqual(s)
	verifReach("end")
}

// p: method index, variant, max variadic length
func VH_C08_CondValues(p []int) {
	m := vhAutoCond[p[0]]
	verifCase(m.name)
	c := vhRichCond(p[1], 0)
	vhVarMax = p[2]
	h := c
	_ = m.callC(&h)
	verifAssert(c.IsInit(), "still-init")
	_ = c.String()
	_ = c.Valid()
	_, _ = c.Unmarshal()
	verifReach("end")
}

// Comparands: two stacks whose single element is drawn independently from the
// value catalogue are compared in both directions (typed nil against a live
// pointer of the same type, zero values against initialised ones, ...).
// p: receiver kind (0 stack element, 1 condition expression)
func VH_C08_EqualAwkward(p []int) {
	a, b := vhAnyValue(nondetChoice(vhAnyCount)), vhAnyValue(nondetChoice(vhAnyCount))
	if p[0] == 0 {
		x, y := And().Push("lead", a), And().Push("lead", b)
		_ = x.IsEqual(y)
		_ = y.IsEqual(x)
		verifAssert(x.IsInit() && y.IsInit(), "still-init")
	} else {
		x, y := Cond("k", Eq, a), Cond("k", Eq, b)
		_ = x.IsEqual(y)
		_ = y.IsEqual(x)
		_ = And().Push(x).IsEqual(And().Push(y))
	}
	verifReach("end")
}

// Every value of the catalogue as the ONLY element of an envelope, as the
// first element before an envelope, and as a Condition's expression: the
// methods that walk and rearrange trees (Reveal, Defrag, Traverse, String,
// Unmarshal, IsEqual, Transfer) meet it in the positions they treat specially.
func VH_C08_WalkersAwkward(p []int) {
	v := vhAnyValue(nondetChoice(vhAnyCount))
	lone := func() Stack { s := Or(); *s.stack = append(*s.stack, v); return s }
	trees := []Stack{
		And().Push("a", lone(), "b"),
		And().Push(Cond("k", Eq, v), Or().Push(And().Push("x", "y"))),
		List().Push(lone()),
	}
	t0 := And().SetMutex()
	*t0.stack = append(*t0.stack, v, Or().Push(And().Push("x", "y")))
	trees = append(trees, t0)
	for _, t := range trees {
		t.Reveal()
		t.Defrag()
		t.Traverse(0, 0)
		t.Traverse(1, 0, 0)
		_ = t.String()
		_, _ = t.Unmarshal()
		_ = t.IsEqual(t)
		_ = t.IsNesting()
		dst := List()
		t.Transfer(dst)
		verifAssert(t.IsInit(), "still-initialised")
		vhAssertUnlocked(t, "after")
	}
	verifReach("end")
}
