package stackage

// Canary: a deliberately false assertion that every check run must find and
// reproduce natively (guards against a check that passes vacuously because
// the solver pipeline or the replay path is broken).
func VH_Canary(p []int) {
	x := nondetInt()
	s := List().Push("a", "b", "c")
	v, ok := s.Index(x)
	verifObserve("ok", ok)
	if ok {
		verifAssert(v.(string) != "c", "canary")
	}
	verifReach("end")
}
