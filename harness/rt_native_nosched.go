//go:build !verif

package stackage

// Without the verif build tag there is no lock-point hook: goroutines started
// by harnesses run freely (used for race-detector runs).
type vhSchedMismatch struct{ msg string }
