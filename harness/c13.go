package stackage

// C13 — no-nesting keeps Stacks out; CanNest / IsNesting tell the truth.

// vhOffer produces one value to push: 0 primitive, 1 nil, 2 Stack, 3 alias,
// 4 alias with String, 5 pointer to alias, 6 Condition, 7 int.
func vhOffer(sel, k int) (any, bool) {
	switch sel {
	case 1:
		return nil, false
	case 2, 3, 4, 5:
		inner := Or().Push("i" + string(rune('0'+k)))
		return vhWrapStack(inner, sel-2), true
	case 6:
		return Cond("kw", Eq, "v"), false
	case 7:
		return 40 + k, false
	}
	return vhTokens[6+k], false
}

// p: n (existing elements, element 0 may be a stack: p[3]), m (batch), toggle
// (0 none, 1 SetNoNesting(b) before the push), firstIsStack
func VH_C13_Push(p []int) {
	n, m := p[0], p[1]
	// zero and nil values of the alias types met before have no say afterwards
	warm := List().Push(vhAliasStack{}, (*vhAliasStack)(nil), vhAliasStackS{})
	_ = warm.IsNesting()
	ConvertStack((*vhAliasStack)(nil))
	vhPreMode = 2
	// with and without a capacity: a refused Stack must not use up room
	pre := vhArbitraryStack(n, 0, false, vhOptMask&^ronly, 2, m+1)
	s, cfg := pre.s, pre.cfg
	model := vhCopy(pre.model)
	nesting := false
	if p[3] == 1 && n > 0 {
		old := And().Push("old")
		(*s.stack)[1] = vhWrapStack(old, nondetChoice(3))
		model[0] = (*s.stack)[1]
		nesting = true
	}
	if p[2] == 1 {
		b := nondetBool()
		s.SetNoNesting(b)
		verifAssert((cfg.opt&nnest != 0) == b, "toggle-sets-bit")
		vhAssertElems(s, model, "toggle-keeps-content")
	}
	bit := cfg.opt&nnest != 0
	verifAssert(s.CanNest() == !bit, "CanNest")
	verifAssert(s.IsNesting() == nesting, "IsNesting-before")
	vals := make([]any, m)
	for k := range vals {
		v, isStack := vhOffer(nondetChoice(8), k)
		vals[k] = v
		if cfg.cap != 0 && len(model) >= cfg.cap-1 {
			continue // no room left: dropped
		}
		if !(isStack && bit) {
			model = append(model, v)
			if isStack {
				nesting = true
			}
		}
	}
	offered := vhCopy(vals)
	s.Push(vals...)
	// the batch is the caller's: it is read, never rearranged
	for k := range vals {
		verifAssert(vhSameElem(vals[k], offered[k]) || (vals[k] == nil && offered[k] == nil), "batch-unchanged")
	}
	vhInv(s, cfg, "inv")
	vhAssertElems(s, model, "stored")
	verifAssert(s.IsNesting() == nesting, "IsNesting-after")
	verifAssert(s.CanNest() == !bit, "CanNest-after")
	verifReach("end")
}

// Condition side. p: form of the stack offered (0..4), initial expression kind
// (0 text, 1 stack)
func VH_C13_Cond(p []int) {
	var c Condition
	first := And().Push("first")
	if p[1] == 1 {
		c = Cond("kw", Eq, first)
		verifAssert(c.IsNesting(), "IsNesting-initial-stack")
	} else {
		c = Cond("kw", Eq, "text")
		verifAssert(!c.IsNesting(), "IsNesting-initial-text")
	}
	prev := c.Expression()
	b := nondetBool()
	c.SetNoNesting(b)
	verifAssert(c.CanNest() == !b, "CanNest")
	verifAssert(vhSameElem(c.Expression(), prev), "toggle-keeps-expression")
	offered := vhWrapStack(Or().Push("x"), p[0])
	c.SetExpression(offered)
	if b {
		verifAssert(vhSameElem(c.Expression(), prev), "refused-keeps-previous")
		verifAssert(c.IsNesting() == (p[1] == 1), "IsNesting-refused")
	} else {
		verifAssert(vhSameElem(c.Expression(), offered), "accepted")
		verifAssert(c.IsNesting(), "IsNesting-accepted")
	}
	c.SetExpression("plain")
	verifAssert(vhSame(c.Expression(), "plain"), "text-always-accepted")
	verifAssert(!c.IsNesting(), "IsNesting-text")
	verifReach("end")
}

// "CanNest is true exactly when a nested Stack would currently be accepted":
// an instance that accepts nothing at all (zero value, freed) answers false.
func VH_C13_Unusable(p []int) {
	var z Stack
	verifAssert(!z.CanNest(), "zero-stack-CanNest")
	z.Push(And().Push("x"))
	verifAssert(z.Len() == 0 && !z.IsNesting(), "zero-stack-accepts-nothing")
	f := Or().Push("a")
	h := f
	_ = f.Free()
	verifAssert(!f.CanNest(), "freed-stack-CanNest")
	verifAssert(h.CanNest(), "other-handle-still-answers")
	verifAssert(!Stack(vhAliasStack{}).CanNest(), "zero-alias-CanNest")
	var zc Condition
	verifAssert(!zc.CanNest(), "zero-condition-CanNest")
	zc.SetExpression(And().Push("x"))
	verifAssert(!zc.IsNesting(), "zero-condition-accepts-nothing")
	verifReach("end")
}
