package stackage

// C12 — user-defined aliases of Stack and Condition behave as the native types.
// The same tree is built twice from one description: with native values, and
// with every nested Stack / Condition independently presented as {native,
// alias, alias with its own String method, pointer to alias} (fork).

// vhBuildC12 builds the tree; when aliased is true each nested instance is
// wrapped by a forked selector (at most budget selectors, then native).
func vhBuildC12(g *vhDigits, depth int, aliased bool, budget *int, label string) Stack {
	var s Stack
	switch g.next(3) {
	case 0:
		s = And()
	case 1:
		s = Or()
	default:
		s = List()
	}
	w := 1 + g.next(3)
	if label != "" && g.next(4) == 0 {
		w = 0 // an initialised but empty nested instance
	}
	wrap := func() int {
		if !aliased || *budget <= 0 {
			return 0
		}
		*budget--
		return nondetChoice(4)
	}
	for i := 0; i < w; i++ {
		name := label + string(rune('a'+i))
		kinds := 7
		if depth <= 1 {
			kinds = 3
		}
		var el any
		switch g.next(kinds) {
		case 6: // a Condition whose expression is a Condition that holds a Stack
			inner := vhWrapStack(vhBuildC12(g, depth-1, aliased, budget, name), wrap())
			el = vhWrapCond(Cond("o"+name, Ne, vhWrapCond(Cond("i"+name, Eq, inner), wrap())), wrap())
		case 0:
			el = name
		case 1:
			el = nil
		case 2:
			el = vhWrapCond(Cond("k"+name, Eq, "v"+name), wrap())
		case 3, 4:
			el = vhWrapStack(vhBuildC12(g, depth-1, aliased, budget, name), wrap())
		case 5:
			inner := vhWrapStack(vhBuildC12(g, depth-1, aliased, budget, name), wrap())
			el = vhWrapCond(Cond("k"+name, Ne, inner), wrap())
		}
		*s.stack = append(*s.stack, el)
	}
	return s
}

// p: depth, pathlen, digits...
func VH_C12(p []int) {
	native := vhBuildC12(&vhDigits{d: p[2:]}, p[0], false, nil, "")
	budget := 3
	alias := vhBuildC12(&vhDigits{d: p[2:]}, p[0], true, &budget, "")
	// rendering
	verifAssert(alias.String() == native.String(), "String")
	// equality in both directions against the native tree
	verifAssert(alias.IsEqual(native) == nil, "IsEqual-alias-vs-native")
	verifAssert(native.IsEqual(alias) == nil, "IsEqual-native-vs-alias")
	// unmarshalling
	un, e1 := native.Unmarshal()
	ua, e2 := alias.Unmarshal()
	verifAssert(e1 == nil && e2 == nil, "Unmarshal-err")
	verifAssert(vhDeepEq(un, ua, false), "Unmarshal")
	// nesting queries
	verifAssert(alias.IsNesting() == native.IsNesting(), "IsNesting")
	for i := 0; i < native.Len(); i++ {
		en, _ := native.Index(i)
		ea, _ := alias.Index(i)
		cn, okn := ConvertCondition(en)
		ca, oka := ConvertCondition(ea)
		verifAssert(okn == oka, "ConvertCondition-ok")
		if okn && oka {
			verifAssert(ca.Len() == cn.Len(), "Condition.Len")
			verifAssert(ca.IsNesting() == cn.IsNesting(), "Condition.IsNesting")
			verifAssert(ca.String() == cn.String(), "Condition.String")
		}
		sn, okn2 := ConvertStack(en)
		sa, oka2 := ConvertStack(ea)
		verifAssert(okn2 == oka2, "ConvertStack-ok")
		if okn2 && oka2 {
			verifAssert(sa.Len() == sn.Len() && sa.Kind() == sn.Kind(), "ConvertStack-instance")
		}
	}
	// traversal with arbitrary indices
	path := make([]int, p[1])
	for k := range path {
		path[k] = nondetInt()
	}
	vn, okn := native.Traverse(path...)
	va, oka := alias.Traverse(path...)
	verifAssert(okn == oka, "Traverse-ok")
	if okn && oka {
		// compare what was reached by its rendering / value
		if sn, ok := ConvertStack(vn); ok {
			sa, ok2 := ConvertStack(va)
			verifAssert(ok2 && sa.String() == sn.String(), "Traverse-stack")
		} else if cn, ok := ConvertCondition(vn); ok {
			ca, ok2 := ConvertCondition(va)
			verifAssert(ok2 && ca.String() == cn.String(), "Traverse-condition")
		} else {
			verifAssert(vhSame(vn, va), "Traverse-leaf")
		}
	}
	// no-nesting refusal, Transfer, Defrag
	dn, da := And().SetNoNesting(true), And().SetNoNesting(true)
	for i := 0; i < native.Len(); i++ {
		en, _ := native.Index(i)
		ea, _ := alias.Index(i)
		dn.Push(en)
		da.Push(ea)
	}
	verifAssert(dn.Len() == da.Len(), "no-nesting-refusal")
	tn, ta := List(), List()
	verifAssert(native.Transfer(tn) == alias.Transfer(vhAliasStack(ta)), "Transfer-verdict")
	verifAssert(tn.Len() == ta.Len(), "Transfer-len")
	// a stack cannot be transferred onto itself, however it is addressed
	self := And().Push("s1", "s2")
	verifAssert(!self.Transfer(self), "self-transfer-native")
	a := vhAliasStack(self)
	verifAssert(!self.Transfer(a), "self-transfer-alias")
	verifAssert(!self.Transfer(&a), "self-transfer-pointer-to-alias")
	verifAssert(self.Len() == 2, "self-transfer-leaves-content")
	native.Defrag()
	alias.Defrag()
	verifAssert(alias.Len() == native.Len(), "Defrag-len")
	verifAssert(alias.String() == native.String(), "Defrag-String")
	verifReach("end")
}

// ConvertStack / ConvertCondition on aliases, nil, zero-valued aliases and
// unrelated types.  p: which
func vhConvForm(k int, base Stack, cb Condition) (in any, wantS, wantC bool) {
	switch k {
	case 0:
		in, wantS = base, true
	case 1:
		in, wantS = vhAliasStack(base), true
	case 2:
		in, wantS = vhAliasStackS(base), true
	case 3:
		a := vhAliasStack(base)
		in, wantS = &a, true
	case 4:
		in, wantC = cb, true
	case 5:
		in, wantC = vhAliasCond(cb), true
	case 6:
		a := vhAliasCondS(cb)
		in, wantC = &a, true
	case 7:
		in = nil
	case 8:
		in = vhAliasStack{}
	case 9:
		in = vhAliasCond{}
	case 10:
		in = "unrelated"
	case 11:
		in = vhPub{1, "b"}
	case 12:
		var pa *vhAliasStack
		in = pa
	case 13:
		in = 42
	case 14:
		in = &vhAliasStack{} // non-nil pointer to a zero-valued alias
	case 15:
		in = &Stack{}
	case 16:
		in = &vhAliasCond{}
	case 17:
		a := vhAliasStack(base)
		pa := &a
		in = &pa // pointer to pointer to alias: flattened like any pointer chain
		wantS = true
	case 18:
		var z vhAliasStackS
		in = z
	case 19:
		var pa *vhAliasCond
		in = pa
	case 20:
		var pa *vhAliasCondS
		in = pa
	case 21:
		var pc *Condition
		in = pc
	case 22:
		var ps *Stack
		in = ps
	case 23: // the zero native values: no more usable than their alias counterparts (8, 9)
		in = Stack{}
	case 24:
		in = Condition{}
	}
	return
}

// vhConvForms is the number of forms vhConvForm knows.
const vhConvForms = 25

// p: form [, an earlier form converted first: a conversion's verdict depends
// on its argument alone, never on what was converted before]
func VH_C12_Convert(p []int) {
	base := And().Push("x")
	cb := Cond("k", Eq, "v")
	if len(p) > 1 {
		other := And().Push("y")
		oc := Cond("k2", Ne, "w")
		first, _, _ := vhConvForm(p[1], other, oc)
		ConvertStack(first)
		ConvertCondition(first)
		fh := Or().Push("lead", first)
		_ = fh.String()
		_ = fh.IsEqual(Or().Push("lead", first))
	}
	in, wantS, wantC := vhConvForm(p[0], base, cb)
	s, okS := ConvertStack(in)
	c, okC := ConvertCondition(in)
	verifAssert(okS == wantS, "ConvertStack-ok")
	verifAssert(okC == wantC, "ConvertCondition-ok")
	if wantS {
		verifAssert(s.stack == base.stack, "ConvertStack-underlying-instance")
	} else {
		verifAssert(s.IsZero(), "ConvertStack-zero-on-failure")
	}
	if wantC {
		verifAssert(c.condition == cb.condition, "ConvertCondition-underlying-instance")
	} else {
		verifAssert(c.IsZero(), "ConvertCondition-zero-on-failure")
	}
	// a holder of such a value must stay usable and agree with the verdict
	h := List().Push("lead", in)
	_ = h.String()
	_, _ = h.Unmarshal()
	h.Traverse(1, 0)
	verifAssert(h.IsNesting() == wantS, "holder-IsNesting")
	verifAssert(Cond("k", Eq, in).IsNesting() == wantS, "condition-holder-IsNesting")
	verifReach("end")
}

