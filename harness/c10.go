package stackage

// C10 — with the mutex enabled, concurrent mutators act atomically.
// T engine threads each run k operations on one mutex-enabled stack; the
// interleaving (at lock-acquisition granularity) is explored by the engine
// together with the symbolic arguments.  Oracle: the results and the final
// content equal those of SOME serial order consistent with program order.

type vhOp struct {
	code int // 0 Push, 1 Pop, 2 Insert, 3 Remove, 4 Replace, 5 Swap, 6 Reverse, 7 Reset, 8 SetMutex (again)
	a, b int
	val  any
}

type vhRes struct {
	v  any
	ok bool
}

var vhOpNames = []string{"Push", "Pop", "Insert", "Remove", "Replace", "Swap", "Reverse", "Reset", "SetMutex"}

func vhApplyReal(s Stack, op vhOp) vhRes {
	switch op.code {
	case 0:
		s.Push(op.val)
	case 1:
		v, ok := s.Pop()
		return vhRes{v, ok}
	case 2:
		return vhRes{nil, s.Insert(op.val, op.a)}
	case 3:
		v, ok := s.Remove(op.a)
		return vhRes{v, ok}
	case 4:
		return vhRes{nil, s.Replace(op.val, op.a)}
	case 5:
		s.Swap(op.a, op.b)
	case 6:
		s.Reverse()
	case 7:
		s.Reset()
	case 8:
		// enabling what is enabled already changes nothing - in particular
		// not the identity of the lock others may be holding
		s.SetMutex()
	}
	return vhRes{}
}

// vhApplyModel: the sequential semantics on a plain list (user capacity
// ucap, 0 = unlimited; no index options).
func vhApplyModel(m []any, fifo bool, ucap int, op vhOp) ([]any, vhRes) {
	n := len(m)
	full := ucap != 0 && n >= ucap
	switch op.code {
	case 0:
		if !full {
			m = append(vhCopy(m), op.val)
		}
	case 1:
		if n == 0 {
			return m, vhRes{}
		}
		if fifo {
			return vhCopy(m[1:]), vhRes{m[0], true}
		}
		return vhCopy(m[:n-1]), vhRes{m[n-1], true}
	case 2:
		if full {
			return m, vhRes{nil, false}
		}
		at := op.a
		if at < 0 {
			at = 0
		}
		if at > n {
			at = n
		}
		w := append(vhCopy(m[:at]), op.val)
		return append(w, m[at:]...), vhRes{nil, true}
	case 3:
		if op.a < 0 || op.a >= n {
			return m, vhRes{}
		}
		return append(vhCopy(m[:op.a]), m[op.a+1:]...), vhRes{m[op.a], true}
	case 4:
		if op.a < 0 || op.a >= n {
			return m, vhRes{nil, false}
		}
		w := vhCopy(m)
		w[op.a] = op.val
		return w, vhRes{nil, true}
	case 5:
		if op.a < 0 || op.a >= n || op.b < 0 || op.b >= n {
			return m, vhRes{}
		}
		w := vhCopy(m)
		w[op.a], w[op.b] = w[op.b], w[op.a]
		return w, vhRes{}
	case 6:
		w := make([]any, n)
		for i := range m {
			w[n-1-i] = m[i]
		}
		return w, vhRes{}
	case 7:
		return []any{}, vhRes{}
	}
	return m, vhRes{}
}

// vhOrders enumerates the interleavings of T sequences of length k that keep
// each sequence's own order; an order is a list of thread numbers.
func vhOrders(T, k int) [][]int {
	var out [][]int
	cnt := make([]int, T)
	var rec func(cur []int)
	rec = func(cur []int) {
		if len(cur) == T*k {
			out = append(out, append([]int{}, cur...))
			return
		}
		for t := 0; t < T; t++ {
			if cnt[t] < k {
				cnt[t]++
				rec(append(cur, t))
				cnt[t]--
			}
		}
	}
	rec(nil)
	return out
}

// p: n, T, k, nops (operation codes 0..nops-1; 9 = {Push, Pop, SetMutex}; 10 =
// {Push, Pop, Reverse, Reset}),
// ucap (0 none), fifo (0/1), policy (1 = an accept-all push policy installed)
func VH_C10(p []int) {
	n, T, k, nops, ucap := p[0], p[1], p[2], p[3], p[4]
	fifo := p[5] == 1
	codes := []int{0, 1, 8}
	if nops <= 8 {
		codes = []int{0, 1, 2, 3, 4, 5, 6, 7}[:nops]
	} else if nops == 10 {
		codes = []int{0, 1, 6, 7} // Push, Pop, Reverse, Reset
	}
	var s Stack
	if ucap > 0 {
		s = List(ucap)
	} else {
		s = List()
	}
	if fifo {
		s.SetFIFO(true)
	}
	init := make([]any, n)
	for i := range init {
		init[i] = vhTokens[i]
		s.Push(init[i])
	}
	s.SetMutex()
	cfg, _ := s.config()
	if len(p) > 6 && p[6] == 1 {
		cfg.ppf = func(...any) error { return nil }
	}
	if len(p) > 6 && p[6] == 2 {
		// what a validity policy thinks of the content has no bearing on locking
		cfg.vpf = func(...any) error { return errorf("content not acceptable") }
	}
	// the operations: codes by fork, index arguments symbolic in a window
	ops := make([][]vhOp, T)
	label := ""
	for t := 0; t < T; t++ {
		ops[t] = make([]vhOp, k)
		for j := 0; j < k; j++ {
			op := vhOp{code: codes[nondetChoice(len(codes))], val: "t" + string(rune('0'+t)) + string(rune('a'+j))}
			switch op.code {
			case 2, 3, 4:
				op.a = nondetInt()
				verifAssume(op.a >= -1)
				verifAssume(op.a <= n+2)
			case 5:
				op.a, op.b = nondetInt(), nondetInt()
				verifAssume(op.a >= -1)
				verifAssume(op.a <= n+2)
				verifAssume(op.b >= -1)
				verifAssume(op.b <= n+2)
			}
			ops[t][j] = op
			if label != "" {
				label += "|"
			}
			label += vhOpNames[op.code]
		}
	}
	verifCase(label)
	res := make([][]vhRes, T)
	for t := range res {
		res[t] = make([]vhRes, k)
	}
	verifShared(s)
	for t := 0; t < T; t++ {
		t := t
		vhGo(func() {
			for j := 0; j < k; j++ {
				res[t][j] = vhApplyReal(s, ops[t][j])
			}
		})
	}
	verifJoin()
	// the configuration record is never returned or removed as if it were an element
	vhInv(s, cfg, "inv")
	verifAssert(cfg.ldr == nil, "lock-released")
	final := vhCopy((*s.stack)[1:])
	if ucap > 0 {
		verifAssert(len(final) <= ucap, "capacity-never-exceeded")
	}
	// no element is lost, duplicated or fabricated (checked for combinations of
	// Push / Pop / Insert / Remove, which only move elements in and out)
	moveOnly := true
	for t := 0; t < T; t++ {
		for j := 0; j < k; j++ {
			if c := ops[t][j].code; c > 3 && c != 8 {
				moveOnly = false
			}
		}
	}
	if moveOnly {
		var seen []any
		for _, v := range final {
			seen = append(seen, v)
		}
		for t := 0; t < T; t++ {
			for j := 0; j < k; j++ {
				// a value handed back counts as accounted for, whatever the flag says
				if c := ops[t][j].code; (c == 1 || c == 3) && res[t][j].v != nil {
					seen = append(seen, res[t][j].v)
				}
			}
		}
		conserved := true
		// every value observed is one that was put in, and at most once
		for i, v := range seen {
			known := false
			for _, w := range init {
				if vhSame(v, w) {
					known = true
				}
			}
			for t := 0; t < T; t++ {
				for j := 0; j < k; j++ {
					if c := ops[t][j].code; (c == 0 || c == 2) && vhSame(v, ops[t][j].val) {
						known = true
					}
				}
			}
			if !known {
				conserved = false
			}
			for l := i + 1; l < len(seen); l++ {
				if vhSame(v, seen[l]) {
					conserved = false
				}
			}
		}
		// every initial element is still somewhere
		for _, w := range init {
			found := false
			for _, v := range seen {
				if vhSame(v, w) {
					found = true
				}
			}
			if !found {
				conserved = false
			}
		}
		// without a capacity every pushed / successfully inserted value is somewhere
		if ucap == 0 {
			for t := 0; t < T; t++ {
				for j := 0; j < k; j++ {
					c := ops[t][j].code
					if c == 0 || (c == 2 && res[t][j].ok) {
						found := false
						for _, v := range seen {
							if vhSame(v, ops[t][j].val) {
								found = true
							}
						}
						if !found {
							conserved = false
						}
					}
				}
			}
		}
		verifAssert(conserved, "conservation")
	}
	// serializability
	serial := false
	for _, order := range vhOrders(T, k) {
		m := vhCopy(init)
		next := make([]int, T)
		match := true
		for _, t := range order {
			j := next[t]
			next[t]++
			var r vhRes
			m, r = vhApplyModel(m, fifo, ucap, ops[t][j])
			if r.ok != res[t][j].ok || !vhSame(r.v, res[t][j].v) {
				match = false
			}
		}
		if match && len(m) == len(final) {
			same := true
			for i := range m {
				if !vhSame(m[i], final[i]) {
					same = false
				}
			}
			if same {
				serial = true
			}
		}
	}
	verifAssert(serial, "serializable")
	verifReach("end")
}
