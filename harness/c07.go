package stackage

// C07 — Traverse(path) equals stepwise Index descent.

// vhDigits feeds tree construction from the case parameters.
type vhDigits struct {
	d   []int
	pos int
}

func (g *vhDigits) next(mod int) int {
	v := 0
	if g.pos < len(g.d) {
		v = g.d[g.pos]
	}
	g.pos++
	if v < 0 {
		v = -v
	}
	return v % mod
}

// vhBuildTree builds a stack of the given remaining depth from digits:
// width 1..maxw, each child: 0 text leaf, 1 nil slot, 2 Condition with text,
// 3 nested Stack, 4 Condition whose expression is a Stack.  Index option bits
// of every stack node are symbolic.
func vhBuildTree(g *vhDigits, depth, maxw int, label string) Stack {
	var s Stack
	switch g.next(3) {
	case 0:
		s = And()
	case 1:
		s = List()
	default:
		s = Basic()
	}
	cfg, _ := s.config()
	// Traverse only reads: no option other than the two index options may matter
	cfg.opt = cfgFlag(nondetUint16()) & vhOptMask
	switch g.next(5) {
	case 0:
		// a validity policy that rejects the node: Index does not care, so
		// neither may Traverse
		cfg.vpf = func(...any) error { return errorf("rejected by policy") }
	case 1:
		// an error some earlier call left behind
		cfg.err = errorf("left behind")
	}
	w := 1 + g.next(maxw)
	for i := 0; i < w; i++ {
		name := label + string(rune('a'+i))
		kinds := 6
		if depth <= 1 {
			kinds = 3
		}
		var el any
		switch g.next(kinds) {
		case 0:
			switch g.next(6) {
			case 0: // values that look like nesting instances and hold nothing
				el = Stack{}
			case 1:
				el = vhAliasStack{}
			case 2:
				var p *vhAliasStack
				el = p
			case 3:
				el = Cond("z"+name, Eq, Stack{})
			default:
				el = name
			}
		case 1:
			el = nil
		case 2:
			el = Cond("k"+name, Eq, "v"+name)
		case 3:
			el = vhWrapStack(vhBuildTree(g, depth-1, maxw, name), g.next(4))
		case 5: // a Condition holding a Condition holding a Stack: not descendable
			el = Cond("o"+name, Eq, Cond("i"+name, Ne, vhBuildTree(g, depth-1, maxw, name)))
		case 4:
			inner := vhWrapStack(vhBuildTree(g, depth-1, maxw, name), g.next(4))
			el = vhWrapCond(Cond("k"+name, Ne, inner), []int{0, 0, 1, 3}[g.next(4)])
		}
		*s.stack = append(*s.stack, el)
	}
	return s
}

// vhRefTraverse is the statement's definition: stepwise Index descent.
func vhRefTraverse(s Stack, path []int) (any, bool) {
	if len(path) == 0 {
		return nil, false
	}
	cur := s
	for k, i := range path {
		v, ok := cur.Index(i)
		if !ok {
			return nil, false
		}
		if k == len(path)-1 {
			return v, true
		}
		// what is a Stack / a Condition is decided by the harness's own
		// knowledge of the types it put into the tree, not by the library's
		// converters (which Traverse uses itself)
		if st, ok := vhStackOf(v); ok {
			cur = st
			continue
		}
		if c, ok := vhCondOf(v); ok {
			if st, ok := vhStackOf(c.Expression()); ok {
				cur = st
				continue
			}
		}
		return nil, false
	}
	return nil, false
}

// p: depth, maxw, L (path length), digits...
func VH_C07(p []int) {
	// whatever was converted, compared or asked before has no say in this
	// walk: zero and nil values of the alias types first meet the library here
	pre := List().Push(vhAliasStack{}, (*vhAliasStack)(nil), vhAliasCond{}, (*vhAliasCond)(nil), (*Stack)(nil))
	_ = pre.IsNesting()
	_ = pre.String()
	ConvertStack(vhAliasStack{})
	ConvertCondition((*vhAliasCond)(nil))
	g := &vhDigits{d: p[3:]}
	root := vhBuildTree(g, p[0], p[1], "")
	before := vhSnapDeep(root, 0)
	path := make([]int, p[2])
	for k := range path {
		path[k] = nondetInt()
	}
	want, wok := vhRefTraverse(root, path)
	got, gok := root.Traverse(path...)
	verifObserve("ok", gok)
	verifAssert(gok == wok, "success-flag")
	if wok {
		verifAssert(vhSameElem(got, want), "value")
		// exactly the value Index hands out: same dynamic type, not a converted copy
		verifAssert(vhFormOf(got) == vhFormOf(want), "value-dynamic-type")
	} else {
		verifAssert(got == nil, "failure-returns-nil")
	}
	vhAssertNodeSame(before, vhSnapDeep(root, 0), "unchanged")
	verifReach("end")
}
