package stackage

// C06 — a Condition holds exactly what it accepted; validity gates rendering.

type vhCondModel struct {
	kw string
	op Operator
	ex any
}

// vhOpArg: 0 nil, 1 built-in with arbitrary code, 2 user operator, 3 user
// operator with empty text, 4 user operator with empty context.
func vhOpArg(sel int) Operator {
	switch sel {
	case 0:
		return nil
	case 1:
		return ComparisonOperator(nondetUint8())
	case 2:
		return vhUserOp{"~=", "approx"}
	case 3:
		return vhUserOp{"", "approx"}
	case 5:
		return vhSliceOp{"~=", "approx"}
	case 6:
		return vhSliceOp{"=~", "approx", "spare"}
	case 7:
		return &vhUserOp{"->", "arrow"}
	case 8: // typed nil pointers: no operator, whatever the interface header says
		var p *vhUserOp
		return p
	case 9:
		var p *ComparisonOperator
		return p
	}
	return vhUserOp{"~=", ""}
}

// vhSliceOp is a user-defined operator of an uncomparable type.
type vhSliceOp []string

func (o vhSliceOp) String() string  { return o[0] }
func (o vhSliceOp) Context() string { return o[1] }

func vhOpAcceptable(op Operator) bool {
	if op == nil {
		return false
	}
	switch p := op.(type) {
	case *vhUserOp:
		if p == nil {
			return false
		}
	case *ComparisonOperator:
		if p == nil {
			return false
		}
	}
	return len(op.Context()) > 0 && len(op.String()) > 0
}

// vhExArg: 0 nil, 1 text, 2 empty string, 3 int, 4 Stack, 5 Condition,
// 6 stringer, 7 bool, 8 empty Stack (still an expression)
func vhExArg(sel int) any {
	switch sel {
	case 0:
		return nil
	case 1:
		return "text"
	case 2:
		return ""
	case 3:
		return 42
	case 4:
		return Or().Push("s1", "s2")
	case 5:
		return Cond("in", Ne, "ner")
	case 6:
		return vhStringer{"strd"}
	case 8:
		return And()
	case 9: // an invalid Condition is still an expression; it renders as nothing
		return Cond("in", nil, "ner")
	case 10:
		return vhAliasCond(Cond("in", ComparisonOperator(9), "ner"))
	case 11:
		return vhAliasCond(Cond("in", Lt, "ner"))
	case 12: // typed nil pointers whose types carry String methods
		var np *vhStringer
		return np
	case 13:
		var np *Stack
		return np
	case 14: // a Stack by another name is a Stack where no-nesting decides
		return vhAliasStack(Or().Push("s1", "s2"))
	case 15:
		a := vhAliasStack(And().Push("p1"))
		return &a
	}
	return true
}

func vhExAcceptable(ex any, noNest, hasErr bool) bool {
	if ex == nil || hasErr {
		return false
	}
	if s, ok := ex.(string); ok && s == "" {
		return false
	}
	if _, isStack := vhStackOf(ex); isStack && noNest {
		return false
	}
	return true
}

func vhSameOp(a, b Operator) bool {
	if a == nil || b == nil {
		return a == nil && b == nil
	}
	if x, ok := a.(vhSliceOp); ok {
		y, ok2 := b.(vhSliceOp)
		return ok2 && len(x) == len(y) && &x[0] == &y[0]
	}
	if _, ok := b.(vhSliceOp); ok {
		return false
	}
	return a == b
}

func vhSameEx(a, b any) bool {
	if a == nil || b == nil {
		return a == nil && b == nil
	}
	switch x := a.(type) {
	case bool:
		y, ok := b.(bool)
		return ok && x == y
	case vhStringer:
		y, ok := b.(vhStringer)
		return ok && x == y
	case *vhStringer:
		y, ok := b.(*vhStringer)
		return ok && x == y
	}
	return vhSameElem(a, b)
}

const vhNoGrammar = "\x00unspecified"

// vhExText is the reference rendering of an expression value.
func vhExText(ex any) string {
	switch x := ex.(type) {
	case string:
		return x
	case int:
		if x == 42 {
			return "42"
		}
	case bool:
		if x {
			return "true"
		}
		return "false"
	case vhStringer:
		return x.s
	case Stack:
		return x.String()
	case Condition:
		return x.String()
	case vhAliasCond:
		return Condition(x).String()
	case vhAliasStack:
		return Stack(x).String()
	case *vhAliasStack:
		return Stack(*x).String()
	case *vhStringer, *Stack:
		return vhNoGrammar // how a typed nil renders is not specified; it must not panic
	}
	return "?"
}

func vhCheckCond(c Condition, m vhCondModel, id string) {
	verifAssert(c.Keyword() == m.kw, id+"/Keyword")
	verifAssert(vhSameOp(c.Operator(), m.op), id+"/Operator")
	verifAssert(vhSameEx(c.Expression(), m.ex), id+"/Expression")
	// validity
	valid := m.kw != "" && m.op != nil && m.ex != nil
	if co, ok := m.op.(ComparisonOperator); ok {
		valid = valid && co >= 1 && co <= 6
	}
	err := c.Valid()
	verifAssert((err == nil) == valid, id+"/Valid-iff-complete")
	str := c.String()
	verifAssert((str == "") == !valid, id+"/String-empty-iff-invalid")
	if valid {
		cfg := c.condition.cfg
		pad := " "
		if cfg.opt&nspad != 0 {
			pad = ""
		}
		val := vhExText(m.ex)
		if val == vhNoGrammar {
			return
		}
		for i := len(cfg.enc); i > 0; i-- {
			e := cfg.enc[i-1]
			if len(e) == 1 {
				val = e[0] + val + e[0]
			} else {
				val = e[0] + val + e[1]
			}
		}
		want := m.kw + pad + m.op.String() + pad + val
		if cfg.opt&parens != 0 {
			want = "(" + pad + want + pad + ")"
		}
		verifAssert(str == want, id+"/String-grammar")
	}
}

// p: call (0 SetKeyword, 1 SetOperator, 2 SetExpression), encap (0 none, 1 single, 2 pair)
func VH_C06_Step(p []int) {
	// arbitrary pre-state, assembled directly
	c := Condition{initCondition()}
	cfg := c.condition.cfg
	cfg.opt = cfgFlag(nondetUint16()) & (parens | nspad | nnest)
	switch p[1] {
	case 1:
		cfg.enc = [][]string{{"\""}}
	case 2:
		cfg.enc = [][]string{{"<", ">"}, {"'"}}
	}
	var m vhCondModel
	if nondetChoice(2) == 1 {
		m.kw = "kw"
	}
	switch nondetChoice(7) { // nil, built-in (valid and invalid codes), user operator
	case 1:
		m.op = Eq
	case 2:
		m.op = Ge
	case 3:
		m.op = ComparisonOperator(0)
	case 4:
		m.op = ComparisonOperator(7)
	case 5:
		m.op = vhUserOp{"~=", "approx"}
	case 6:
		m.op = vhSliceOp{"<>", "approx"}
	}
	m.ex = vhExArg([]int{0, 1, 3, 4, 5, 6, 8, 9, 11}[nondetChoice(9)])
	c.condition.kw, c.condition.op, c.condition.ex = m.kw, m.op, m.ex
	hasErr := nondetChoice(2) == 1
	if hasErr {
		cfg.err = errorf("earlier error")
	}
	vhCheckCond(c, m, "pre")
	noNest := cfg.opt&nnest != 0
	switch p[0] {
	case 0:
		switch nondetChoice(6) {
		case 4:
			// a nil pointer whose type has a String method, and a zero-valued
			// stringer: neither is a keyword, neither may be called upon
			var np *vhStringer
			c.SetKeyword(np)
		case 5:
			c.SetKeyword(vhStringer{})
		case 0:
			c.SetKeyword("other")
			m.kw = "other"
		case 1:
			c.SetKeyword("")
			m.kw = ""
		case 2:
			c.SetKeyword(vhStringer{"skw"})
			m.kw = "skw"
		case 3:
			c.SetKeyword(17) // neither text nor stringer: ignored
		}
	case 1:
		op := vhOpArg(nondetChoice(10))
		c.SetOperator(op)
		if vhOpAcceptable(op) {
			m.op = op
		}
	case 2:
		ex := vhExArg(nondetChoice(16))
		c.SetExpression(ex)
		if vhExAcceptable(ex, noNest, hasErr) {
			m.ex = ex
		}
	}
	vhCheckCond(c, m, "post")
	verifAssert((c.Err() != nil) == hasErr, "Err-untouched")
	verifReach("end")
}

// p: k setter calls from Cond(...) (start 0) or Init() (start 1)
func VH_C06_Hist(p []int) {
	var c Condition
	var m vhCondModel
	if p[1] == 0 {
		kw := ""
		if nondetChoice(2) == 1 {
			kw = "kw"
		}
		op := vhOpArg(nondetChoice(10))
		ex := vhExArg(nondetChoice(16))
		c = Cond(kw, op, ex)
		m.kw = kw
		if vhOpAcceptable(op) {
			m.op = op
		}
		if vhExAcceptable(ex, false, false) {
			m.ex = ex
		}
		valid := m.kw != "" && m.op != nil && m.ex != nil
		if co, ok := m.op.(ComparisonOperator); ok {
			valid = valid && co >= 1 && co <= 6
		}
		verifAssert((c.Err() == nil) == valid, "Cond-records-validity")
		c.SetErr(nil)
	} else {
		c.Init()
	}
	verifAssert(c.IsInit(), "init")
	for step := 0; step < p[0]; step++ {
		noNest := c.condition.cfg.opt&nnest != 0
		switch nondetChoice(4) {
		case 0:
			if nondetChoice(2) == 0 {
				c.SetKeyword("k2")
				m.kw = "k2"
			} else {
				c.SetKeyword("")
				m.kw = ""
			}
		case 1:
			op := vhOpArg(nondetChoice(10))
			c.SetOperator(op)
			if vhOpAcceptable(op) {
				m.op = op
			}
		case 2:
			ex := vhExArg(nondetChoice(16))
			c.SetExpression(ex)
			if vhExAcceptable(ex, noNest, false) {
				m.ex = ex
			}
		case 3:
			c.SetNoNesting(nondetBool())
		}
		vhCheckCond(c, m, "step")
	}
	verifReach("end")
}
