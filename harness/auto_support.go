package stackage

// Support for the generated method tables (zz_verif_auto_gen.go, produced by
// `gosx` at run time from the method sets of the tree under test): argument
// generators and deep snapshots.

import "log"

// vhAutoM is one exported method (or package-level function) with a closure
// that calls it with arbitrary arguments and returns the boxed results.
// The call is split in two stages so that the arguments (nondet values) are
// drawn first and the returned closure performs nothing but the call.
type vhAutoM struct {
	name  string
	mut   bool // listed in mutators.txt
	prepS func() func(r *Stack) []any
	prepC func() func(r *Condition) []any
	prepA func() func(r *Auxiliary) []any
	prepF func() func() []any
}

func (m vhAutoM) callS(r *Stack) []any     { return m.prepS()(r) }
func (m vhAutoM) callC(r *Condition) []any { return m.prepC()(r) }
func (m vhAutoM) callA(r *Auxiliary) []any { return m.prepA()(r) }
func (m vhAutoM) callF() []any             { return m.prepF()() }

type vhUserOp struct{ s, c string }

func (o vhUserOp) String() string  { return o.s }
func (o vhUserOp) Context() string { return o.c }

type vhPrivStruct struct {
	A int
	b int
}

type vhStringer struct{ s string }

func (v vhStringer) String() string { return v.s }

// vhIntCap, when positive, bounds the ints handed to calls (used for the
// constructors' capacity argument, which only sizes an allocation).
var vhIntCap int

func vhArgInt() int {
	v := nondetInt()
	if vhIntCap > 0 {
		verifAssume(v <= vhIntCap)
	}
	return v
}
func vhArgBool() bool { return nondetBool() }

func vhArgString() string {
	switch nondetChoice(4) {
	case 0:
		return ""
	case 1:
		return "x"
	case 2:
		return "AND"
	}
	return "all"
}

func vhArgErr() error {
	if nondetChoice(2) == 0 {
		return nil
	}
	return errorf("harness error")
}

func vhArgAux() Auxiliary {
	if nondetChoice(2) == 0 {
		return nil
	}
	return Auxiliary{"k": 1}
}

func vhArgOp() Operator {
	switch nondetChoice(7) {
	case 0:
		return nil
	case 5: // typed nil pointers: an Operator interface that is not nil, yet holds nothing
		var p *vhUserOp
		return p
	case 6:
		var p *ComparisonOperator
		return p
	case 1:
		return Eq
	case 2:
		return ComparisonOperator(nondetUint8())
	case 3:
		return vhUserOp{"~=", "approx"}
	}
	return vhUserOp{"", ""}
}

// vhAnyCount is the size of the catalogue of awkward values (C08 part b).
const vhAnyCount = 39

// vhAnyValue returns entry k of the catalogue.
// vhSpecial, when set, replaces catalogue entry 3 (an initialised Stack): it
// lets a harness hand a particular instance to every `any` parameter.
var vhSpecial any

func vhAnyValue(k int) any {
	if k == 3 && vhSpecial != nil {
		return vhSpecial
	}
	switch k {
	case 0:
		return nil
	case 1:
		return "txt"
	case 2:
		return 7
	case 3:
		return And().Push("n1", "n2")
	case 4:
		return Cond("kw", Eq, "val")
	case 5:
		var p *int
		return p
	case 6:
		var p *Stack
		return p
	case 7:
		var p *vhAliasStack
		return p
	case 8:
		var p **int
		return p
	case 9:
		return Stack{}
	case 10:
		return Condition{}
	case 11:
		return func() {}
	case 12:
		return make(chan int)
	case 13:
		return map[string]int{"a": 1}
	case 14:
		return vhPrivStruct{1, 2}
	case 15:
		var z float64
		return z / z // NaN
	case 16:
		x := 5
		px := &x
		return &px
	case 17:
		return vhAliasStack(Or().Push("a1"))
	case 18:
		a := vhAliasCond(Cond("k2", Ne, "v2"))
		return &a
	case 19:
		return []string{"(", ")"}
	case 20:
		return rune('|')
	case 21:
		return vhStringer{"str"}
	case 22:
		var p *vhAliasCond
		return p
	case 23:
		return []any{"AND", "q"}
	case 24:
		return &vhPub{3, "b"}
	case 25:
		var p *vhPub
		return p
	case 26:
		pp := &vhPub{3, "b"}
		var np *vhPub
		if nondetChoice(2) == 0 {
			return &pp
		}
		return &np
	case 27:
		return vhAliasStack{}
	case 28:
		return &Stack{}
	case 29:
		return &vhAliasCond{}
	case 30:
		return []string{}
	case 31:
		return []string{"a", "b", "c"}
	case 32:
		return []*int{nil}
	case 33:
		five := 5
		return []*int{&five}
	case 34:
		return "stdout"
	case 35:
		return 1
	case 36:
		return LogLevel(4)
	case 37:
		return []any{"CONDITION", "mk", Eq, "mv"}
	case 38:
		return []any{"OR", "m1", "m2"}
	}
	return nil
}

const vhAnyTail = 5

// vhAnyLimit restricts vhArgAny to the first vhAnyLimit catalogue entries
// (harnesses set it; 0 = whole catalogue).
var vhAnyLimit int

func vhArgAny() any {
	n := vhAnyCount
	if vhAnyLimit > 0 {
		n = vhAnyLimit
	}
	// the last vhAnyTail entries (values meaningful to the logging setters and
	// to Marshal) are always part of the selection
	k := nondetChoice(n + vhAnyTail)
	if k >= n {
		return vhAnyValue(vhAnyCount - vhAnyTail + (k - n))
	}
	return vhAnyValue(k)
}

// vhVarLen limits the lengths tried for variadic arguments (0, 1, 2).
var vhVarMax = 2

// ---------------------------------------------------------------------
// deep snapshots

type vhNode struct {
	kind   int // 0 nil, 1 primitive, 2 stack, 3 condition, 4 other
	prim   any
	id     int // identity of the instance (stack / condition)
	rawlen int
	cfg    vhCfgSnap
	cfgid  int
	kw     string
	opS    string
	opC    string
	opNil  bool
	elems  []*vhNode
	ex     *vhNode
}

func vhSnapDeep(x any, depth int) *vhNode {
	if x == nil {
		return &vhNode{kind: 0}
	}
	if depth > 4 {
		return &vhNode{kind: 4}
	}
	if s, ok := vhStackOf(x); ok {
		n := &vhNode{kind: 2, id: verifFuncID(s.stack), rawlen: len(*s.stack)}
		if cfg, _ := s.stack.config(); cfg != nil {
			n.cfg = vhSnapCfg(cfg)
			n.cfgid = verifFuncID(cfg)
		}
		st := *s.stack
		for i := 1; i < len(st); i++ {
			n.elems = append(n.elems, vhSnapDeep(st[i], depth+1))
		}
		return n
	}
	if c, ok := vhCondOf(x); ok {
		n := &vhNode{kind: 3, id: verifFuncID(c.condition), kw: c.condition.kw}
		if c.condition.cfg != nil {
			n.cfg = vhSnapCfg(c.condition.cfg)
			n.cfgid = verifFuncID(c.condition.cfg)
		}
		if c.condition.op == nil {
			n.opNil = true
		} else {
			n.opS, n.opC = c.condition.op.String(), c.condition.op.Context()
		}
		n.ex = vhSnapDeep(c.condition.ex, depth+1)
		return n
	}
	switch v := x.(type) {
	case string, int, bool, rune, uint8, uint16, ComparisonOperator, LogLevel:
		return &vhNode{kind: 1, prim: v}
	}
	return &vhNode{kind: 4}
}

func vhAssertNodeSame(a, b *vhNode, id string) {
	verifAssert(a.kind == b.kind, id+"/kind")
	if a.kind != b.kind {
		return
	}
	switch a.kind {
	case 1:
		verifAssert(a.prim == b.prim, id+"/value")
	case 2:
		verifAssert(a.id == b.id, id+"/stack-identity")
		verifAssert(a.cfgid == b.cfgid, id+"/config-identity")
		verifAssert(a.rawlen == b.rawlen, id+"/length")
		vhAssertCfgSame(a.cfg, b.cfg, id+"/cfg")
		if len(a.elems) == len(b.elems) {
			for i := range a.elems {
				vhAssertNodeSame(a.elems[i], b.elems[i], id+"/elem")
			}
		}
	case 3:
		verifAssert(a.id == b.id, id+"/cond-identity")
		verifAssert(a.cfgid == b.cfgid, id+"/cond-config-identity")
		vhAssertCfgSame(a.cfg, b.cfg, id+"/condcfg")
		verifAssert(a.kw == b.kw, id+"/keyword")
		verifAssert(a.opNil == b.opNil, id+"/operator-nil")
		verifAssert(a.opS == b.opS, id+"/operator")
		verifAssert(a.opC == b.opC, id+"/operator-context")
		vhAssertNodeSame(a.ex, b.ex, id+"/expr")
	}
}

// vhTruthyWhenZero is set for the predicates whose truthful answer for an
// uninitialised instance is true (IsZero, IsEmpty) or whose sense is negative
// (IsPadded = "no-padding bit unset"); their bool result is not constrained.
var vhTruthyWhenZero bool

func vhIsTruthyPredicate(name string) bool {
	switch name {
	case "Stack.IsZero", "Stack.IsEmpty", "Stack.IsPadded", "Condition.IsZero", "Condition.IsPadded":
		return true
	}
	return false
}

// vhAssertZeroResult: results of calls on uninitialised instances must be
// zero values (strings may be documented sentinels, errors are free).
func vhAssertZeroResult(v any, id string) {
	if vhTruthyWhenZero {
		if _, ok := v.(bool); ok {
			return
		}
	}
	switch x := v.(type) {
	case nil:
	case bool:
		verifAssert(!x, id+"/bool")
	case int:
		verifAssert(x == 0, id+"/int")
	case string, error:
	case Stack:
		verifAssert(x.IsZero(), id+"/Stack")
	case Condition:
		verifAssert(x.IsZero(), id+"/Condition")
	case Auxiliary:
		verifAssert(x == nil, id+"/Auxiliary")
	case []any:
		verifAssert(len(x) == 0, id+"/slice")
	case *log.Logger:
		verifAssert(x == nil, id+"/Logger")
	default:
		verifAssert(false, id+"/unexpected-non-zero-result")
	}
}

// vhResultSame compares two boxed results of the same query.
func vhResultSame(a, b any) bool {
	if a == nil || b == nil {
		return a == nil && b == nil
	}
	switch x := a.(type) {
	case bool:
		y, ok := b.(bool)
		return ok && x == y
	case int:
		y, ok := b.(int)
		return ok && x == y
	case string:
		y, ok := b.(string)
		return ok && x == y
	case error:
		y, ok := b.(error)
		return ok && x.Error() == y.Error()
	case Auxiliary:
		y, ok := b.(Auxiliary)
		return ok && len(x) == len(y)
	case []any:
		y, ok := b.([]any)
		if !ok || len(x) != len(y) {
			return false
		}
		for i := range x {
			if !vhResultSame(x[i], y[i]) {
				return false
			}
		}
		return true
	case *log.Logger:
		y, ok := b.(*log.Logger)
		return ok && x == y
	case ComparisonOperator:
		y, ok := b.(ComparisonOperator)
		return ok && x == y
	}
	if _, ok := vhStackOf(a); ok {
		return vhSameElem(a, b)
	}
	if _, ok := vhCondOf(a); ok {
		return vhSameElem(a, b)
	}
	return true // values the harness cannot compare (functions, maps, ...) are not constrained
}

// vhResetGlobals restores harness and package-level state between native
// replays (the engine re-runs the package initialiser on every path).
func vhResetGlobals() {
	vhAnyLimit, vhVarMax, vhIntCap, vhTruthyWhenZero, vhSymOpBudget = 0, 2, 0, false, 0
	vhSpecial = nil
	vhC05Opts, vhC05Opt, vhC05Sym = false, 0, ""
	vhPreMode = 1
	vhNewRun()
	sLogDefault, cLogDefault = devNull, devNull
	sLogLevelDefault, cLogLevelDefault = NoLogLevels, NoLogLevels
}
