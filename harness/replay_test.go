package stackage

// Native replay driver: runs recorded nondet vectors through the harness
// functions compiled against the real package and reports outcome and
// observations for each.  Driven by /verif/engine (gosx).

import (
	"encoding/json"
	"fmt"
	"os"
	"runtime"
	"strconv"
	"strings"
	"testing"
	"time"
)

type vhWitness struct {
	Vector  []string `json:"vector"`
	Sched   []int    `json:"sched"`
	Obs     []string `json:"obs"`
	Outcome string   `json:"outcome"`
}

type vhCase struct {
	Harness   string      `json:"harness"`
	Params    []int       `json:"params"`
	Witnesses []vhWitness `json:"witnesses"`
}

type vhResult struct {
	Case    int      `json:"case"`
	Witness int      `json:"witness"`
	Outcome string   `json:"outcome"`
	Obs     []string `json:"obs"`
	Detail  string   `json:"detail,omitempty"`
	Label   string   `json:"label,omitempty"`
}

func vhRunOne(fn func([]int), params []int, vec []string, sched []int, useSched bool) (outcome, detail string, obs []string, label string) {
	vhVec, vhPos, vhObs, vhLabel, vhReach = vec, 0, nil, "", nil
	vhResetGlobals()
	if vhSchedSet != nil {
		if useSched {
			if sched == nil {
				sched = []int{}
			}
			vhSchedSet(sched)
		} else {
			vhSchedSet(nil)
		}
	}
	// run the harness under a watchdog: a deadlocked harness goroutine is
	// abandoned and reported as "timeout"
	type result struct{ outcome, detail string }
	done := make(chan result, 1)
	go func() {
		oc, dt := vhRunGuarded(fn, params)
		done <- result{oc, dt}
	}()
	select {
	case r := <-done:
		return r.outcome, r.detail, vhObs, vhLabel
	case <-time.After(vhWatchdog):
		return "timeout", "harness did not return within the watchdog period (deadlock?)", nil, vhLabel
	}
}

var vhWatchdog = 2 * time.Second

func vhRunGuarded(fn func([]int), params []int) (outcome, detail string) {
	defer func() {
		if r := recover(); r != nil {
			switch p := r.(type) {
			case vhAssertFail:
				outcome = "assert:" + p.id
			case vhAssumeFail:
				outcome = "assume"
			case vhSchedMismatch:
				outcome = "sched-mismatch"
				detail = p.msg
			default:
				outcome = "panic"
				buf := make([]byte, 8192)
				n := runtime.Stack(buf, false)
				detail = fmt.Sprintf("%v\n%s", r, vhTrimStack(string(buf[:n])))
			}
		}
	}()
	fn(params)
	return "ok", ""
}

func vhTrimStack(s string) string {
	lines := strings.Split(s, "\n")
	var out []string
	for _, l := range lines {
		if strings.Contains(l, "go-stackage") || strings.Contains(l, "/repo/") {
			out = append(out, strings.TrimSpace(l))
		}
		if len(out) > 12 {
			break
		}
	}
	return strings.Join(out, " | ")
}

func TestVerifReplay(t *testing.T) {
	race := os.Getenv("VERIF_RACE") == "1"
	in := os.Getenv("VERIF_REPLAY_IN")
	out := os.Getenv("VERIF_REPLAY_OUT")
	if in == "" || out == "" {
		t.Skip("no replay input")
	}
	data, err := os.ReadFile(in)
	if err != nil {
		t.Fatal(err)
	}
	var cases []vhCase
	if err := json.Unmarshal(data, &cases); err != nil {
		t.Fatal(err)
	}
	skip, _ := strconv.Atoi(os.Getenv("VERIF_REPLAY_SKIP"))
	of, err := os.OpenFile(out, os.O_CREATE|os.O_WRONLY|os.O_APPEND, 0o644)
	if err != nil {
		t.Fatal(err)
	}
	defer of.Close()
	seq := 0
	for ci, c := range cases {
		fn := vhRegistry[c.Harness]
		if fn == nil {
			t.Fatalf("unknown harness %s", c.Harness)
		}
		for wi, w := range c.Witnesses {
			seq++
			if seq <= skip {
				continue
			}
			var oc, detail, label string
			var obs []string
			if race {
				vhRaceMode = true
				ok := t.Run(fmt.Sprintf("w%d_%d", ci, wi), func(st *testing.T) {
					oc, detail, obs, label = vhRunOne(fn, c.Params, w.Vector, nil, false)
				})
				if !ok && oc == "ok" {
					oc = "race"
				}
			} else {
				oc, detail, obs, label = vhRunOne(fn, c.Params, w.Vector, w.Sched, os.Getenv("VERIF_SCHED") == "1")
			}
			// one line per witness, written at once: whatever kills the process
			// later, the results so far are on disk
			b, _ := json.Marshal(vhResult{Case: ci, Witness: wi, Outcome: oc, Obs: obs, Detail: detail, Label: label})
			if _, err := of.Write(append(b, '\n')); err != nil {
				t.Fatal(err)
			}
		}
	}
}
