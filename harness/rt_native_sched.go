//go:build verif

package stackage

// Cooperative scheduler for native schedule replay (C10): mirrors the
// engine's thread scheduler (engine/symx/threads.go) decision for decision,
// driven by the lock-point hook of the library (build tag verif).

import "fmt"

type vhThr struct {
	id      int
	wake    chan struct{}
	done    bool
	blocked *stack
	joining bool
}

var vhS struct {
	on    bool
	sched []int
	pos   int
	thr   []*vhThr
	cur   *vhThr
	held  map[*stack]int // owner id + 1
	err   any
}

func init() {
	vhSchedOn = func() bool { return vhS.on }
	vhSchedGo = vhSGo
	vhSchedJn = vhSJoin
	vhSchedSet = func(sched []int) {
		main := &vhThr{id: 0, wake: make(chan struct{})}
		vhS.on = sched != nil
		vhS.sched, vhS.pos = sched, 0
		vhS.thr = []*vhThr{main}
		vhS.cur = main
		vhS.held = map[*stack]int{}
		vhS.err = nil
		if vhS.on {
			verifHook = vhSHook
		} else {
			verifHook = nil
		}
	}
}

func vhSRunnable(t *vhThr) bool {
	if t.done {
		return false
	}
	if t.blocked != nil && vhS.held[t.blocked] != 0 {
		return false
	}
	if t.joining {
		for _, o := range vhS.thr {
			if o != t && !o.done {
				return false
			}
		}
	}
	return true
}

func vhSCands(exclude *vhThr) []*vhThr {
	var c []*vhThr
	for _, t := range vhS.thr {
		if t != exclude && vhSRunnable(t) {
			c = append(c, t)
		}
	}
	return c
}

type vhSchedMismatch struct{ msg string }

func vhSPick(c []*vhThr) *vhThr {
	if len(c) == 1 {
		return c[0]
	}
	if vhS.pos >= len(vhS.sched) || vhS.sched[vhS.pos] >= len(c) {
		panic(vhSchedMismatch{fmt.Sprintf("schedule vector exhausted or out of range at decision %d (%d candidates)", vhS.pos, len(c))})
	}
	k := vhS.sched[vhS.pos]
	vhS.pos++
	return c[k]
}

func vhSSwitch(next *vhThr) {
	cur := vhS.cur
	if next == cur {
		return
	}
	vhS.cur = next
	next.wake <- struct{}{}
	<-cur.wake
	vhS.cur = cur
	if cur.id == 0 && vhS.err != nil {
		e := vhS.err
		vhS.err = nil
		panic(e)
	}
}

func vhSYield() {
	if len(vhS.thr) == 1 {
		return
	}
	c := vhSCands(nil)
	if len(c) == 0 {
		return
	}
	vhSSwitch(vhSPick(c))
}

func vhSHook(point string, r *stack) {
	if !vhS.on {
		return
	}
	cur := vhS.cur
	switch point {
	case "lock.want":
		vhSYield()
		for vhS.held[r] != 0 {
			if vhS.held[r] == cur.id+1 {
				panic("deadlock: lock taken twice by one goroutine")
			}
			cur.blocked = r
			c := vhSCands(cur)
			if len(c) == 0 {
				panic("deadlock: all goroutines are blocked")
			}
			vhSSwitch(vhSPick(c))
		}
		cur.blocked = nil
		vhS.held[r] = cur.id + 1
	case "lock.held":
	case "lock.released":
		delete(vhS.held, r)
		vhSYield()
	}
}

func vhSGo(f func()) {
	t := &vhThr{id: len(vhS.thr), wake: make(chan struct{})}
	vhS.thr = append(vhS.thr, t)
	go func() {
		<-t.wake
		main := vhS.thr[0]
		defer func() {
			r := recover()
			t.done = true
			if r != nil {
				vhS.err = r
				vhS.cur = main
				main.wake <- struct{}{}
				return
			}
			c := vhSCands(t)
			if len(c) == 0 {
				vhS.err = "deadlock: all goroutines are blocked at the end of a goroutine"
				vhS.cur = main
				main.wake <- struct{}{}
				return
			}
			func() {
				defer func() {
					if r2 := recover(); r2 != nil {
						vhS.err = r2
						vhS.cur = main
						main.wake <- struct{}{}
					}
				}()
				next := vhSPick(c)
				vhS.cur = next
				next.wake <- struct{}{}
			}()
		}()
		f()
	}()
}

func vhSJoin() {
	main := vhS.thr[0]
	for {
		all := true
		for _, t := range vhS.thr[1:] {
			if !t.done {
				all = false
			}
		}
		if all {
			break
		}
		main.joining = true
		c := vhSCands(main)
		if len(c) == 0 {
			panic("deadlock: all goroutines are blocked (join)")
		}
		vhSSwitch(vhSPick(c))
	}
	main.joining = false
}
