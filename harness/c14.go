package stackage

// C14 — user-supplied policies decide, exactly as documented.

type vhPolicyLog struct {
	calls    []any
	verdicts []bool
}

// p: n (existing), m (batch), capMode
func VH_C14_Push(p []int) {
	n, m := p[0], p[1]
	pre := vhArbitraryStack(n, 1, false, vhOptMask&^ronly, p[2], 2)
	s, cfg := pre.s, pre.cfg
	log := &vhPolicyLog{}
	sentinel := errorf("rejected by policy")
	// the verdict of each consultation is an arbitrary boolean
	s.SetPushPolicy(func(x ...any) error {
		log.calls = append(log.calls, x[0])
		ok := nondetBool()
		log.verdicts = append(log.verdicts, ok)
		if ok {
			return nil
		}
		return sentinel
	})
	verifAssert(verifFuncID(cfg.ppf) != 0, "policy-installed")
	// an older error may be pending when the batch is pushed
	var prior error
	if nondetChoice(2) == 1 {
		prior = errorf("older error")
	}
	cfg.err = prior
	vals := make([]any, m)
	for k := range vals {
		switch nondetChoice(3) {
		case 0:
			vals[k] = vhTokens[6+k]
		case 1:
			vals[k] = nil
		default:
			vals[k] = Or().Push("nested") // with a policy installed the policy alone decides
		}
	}
	if len(p) > 3 && p[3] == 1 {
		// the values arrive through Transfer from another stack: each is
		// offered to the destination on its own, policy included
		verifAssume(cfg.cap == 0)
		src := Basic()
		*src.stack = append(*src.stack, vals...)
		src.Transfer(s)
		model := vhCopy(pre.model)
		verifAssert(len(log.calls) == m, "transfer-consults-the-policy-for-each-value")
		for k := 0; k < m && k < len(log.calls); k++ {
			verifAssert(vhSameElem(log.calls[k], vals[k]), "transfer-consults-in-order")
			if log.verdicts[k] {
				model = append(model, vals[k])
			}
		}
		vhInv(s, cfg, "inv")
		vhAssertElems(s, model, "transfer-stores-exactly-the-approved")
		verifReach("end")
		return
	}
	s.Push(vals...)
	// reference: consult once per value in order while room remains; append
	// on approval; stop at the first rejection
	model := vhCopy(pre.model)
	consulted := 0
	rejected := false
	for k := 0; k < m; k++ {
		full := cfg.cap != 0 && len(model)+1 >= cfg.cap
		if full {
			continue // dropped for capacity: not consulted
		}
		verifAssert(consulted < len(log.calls), "consulted-for-each-value-with-room")
		if consulted >= len(log.calls) {
			break
		}
		verifAssert(vhSameElem(log.calls[consulted], vals[k]), "consulted-in-order")
		ok := log.verdicts[consulted]
		consulted++
		if !ok {
			rejected = true
			break
		}
		model = append(model, vals[k])
	}
	verifAssert(len(log.calls) == consulted, "no-extra-consultations")
	vhInv(s, cfg, "inv")
	vhAssertElems(s, model, "stored-exactly-the-approved-prefix")
	if rejected {
		verifAssert(s.Err() == sentinel, "Err-is-the-policy-error")
	} else {
		verifAssert(s.Err() == prior, "Err-untouched-without-rejection")
	}
	// removing the policy restores the built-in behaviour
	s.SetPushPolicy(nil)
	before := s.Len()
	s.Push("plain")
	if cfg.cap == 0 || before+1 < cfg.cap {
		verifAssert(s.Len() == before+1, "policy-removed")
	}
	verifReach("end")
}

// p: kind (0 AND, 1 OR, 2 NOT, 3 LIST, 4 BASIC)
func VH_C14_StackClosures(p []int) {
	var s Stack
	switch p[0] {
	case 0:
		s = And()
	case 1:
		s = Or()
	case 2:
		s = Not()
	case 3:
		s = List()
	default:
		s = Basic()
	}
	s.Push("a", "b")
	// no display or addressing option changes who decides
	opt := cfgFlag(nondetUint16()) & (parens | cfold | nspad | lonce | negidx | fwdidx)
	if cfg, _ := s.config(); cfg != nil {
		cfg.opt = opt
	}
	if nondetChoice(2) == 1 {
		s.SetMutex() // installing, consulting and removing closures hands every lock back
	}
	other := And().Push("zzz")
	same := func() Stack {
		switch p[0] {
		case 0:
			return And().Push("a", "b")
		case 1:
			return Or().Push("a", "b")
		case 2:
			return Not().Push("a", "b")
		case 3:
			return List().Push("a", "b")
		}
		return Basic().Push("a", "b")
	}()
	if cfg, _ := same.config(); cfg != nil {
		cfg.opt = opt // the same description, built independently
	}
	builtinString := s.String()
	builtinUn, _ := s.Unmarshal()
	sentinel := errorf("sentinel")
	for step := 0; step < 2; step++ {
		which := nondetChoice(5)
		install := nondetBool()
		switch which {
		case 0: // validity
			if install {
				bad := nondetBool()
				s.SetValidityPolicy(func(...any) error {
					if bad {
						return sentinel
					}
					return nil
				})
				verifAssert((s.Valid() != nil) == bad, "validity-closure-decides")
				if bad {
					verifAssert(s.String() == "", "invalid-renders-empty")
				}
			}
			s.SetValidityPolicy(nil)
			verifAssert(s.Valid() == nil, "validity-restored")
		case 1: // presentation
			if install {
				s.SetPresentationPolicy(func(...any) string { return "PRESENTED" })
				if p[0] == 4 {
					verifAssert(s.Err() != nil, "basic-refuses-presentation-policy")
					verifAssert(s.String() == "", "basic-renders-empty")
					s.SetErr(nil)
				} else {
					verifAssert(s.String() == "PRESENTED", "presentation-closure-result")
				}
			}
			s.SetPresentationPolicy(nil)
			verifAssert(s.String() == builtinString, "presentation-restored")
		case 2: // equality
			if install {
				eq := nondetBool()
				s.SetEqualityPolicy(func(any, any) error {
					if eq {
						return nil
					}
					return sentinel
				})
				verifAssert((s.IsEqual(other) == nil) == eq, "equality-closure-result")
				verifAssert((s.IsEqual(same) == nil) == eq, "equality-closure-result-same")
				// ... also when the comparand is the receiver itself
				verifAssert((s.IsEqual(s) == nil) == eq, "equality-closure-result-self")
				verifAssert((s.IsEqual(vhAliasStack(s)) == nil) == eq, "equality-closure-result-self-alias")
				verifAssert((s.IsEqual(&s) == nil) == eq, "equality-closure-result-self-pointer")
			}
			s.SetEqualityPolicy()
			verifAssert(s.IsEqual(other) != nil, "equality-restored-different")
			verifAssert(s.IsEqual(same) == nil, "equality-restored-same")
		case 3: // unmarshal
			if install {
				s.SetUnmarshaler(func(...any) ([]any, error) { return []any{"U"}, sentinel })
				u, err := s.Unmarshal()
				verifAssert(len(u) == 1 && vhSame(u[0], "U") && err == sentinel, "unmarshal-closure-result")
			}
			s.SetUnmarshaler()
			u, err := s.Unmarshal()
			verifAssert(err == nil && len(u) == len(builtinUn), "unmarshal-restored")
		case 4: // marshal
			if install {
				called := 0
				var seen []any
				s.SetMarshaler(func(in ...any) error { called++; seen = in; return sentinel })
				err := s.Marshal("AND", "x")
				verifAssert(err == sentinel && called == 1, "marshal-closure-result")
				verifAssert(s.Len() == 2, "marshal-closure-only")
				// the closure receives the input as offered: one enveloped
				// slice stays one argument, an empty envelope is still input
				err = s.Marshal([]any{"AND", "x"})
				verifAssert(err == sentinel && called == 2, "marshal-closure-result-envelope")
				if len(seen) == 1 {
					_, isSlice := seen[0].([]any)
					verifAssert(isSlice, "marshal-closure-sees-the-envelope")
				} else {
					verifAssert(false, "marshal-closure-sees-one-argument")
				}
				err = s.Marshal([]any{})
				verifAssert(err == sentinel && called == 3, "marshal-closure-result-empty-envelope")
			}
			s.SetMarshaler()
			l := s.Len()
			err := s.Marshal([]any{"AND", "x"})
			verifAssert(err == nil && s.Len() == l+1, "marshal-restored")
			s.Remove(l)
		}
	}
	// closures in combination: a Stack its validity closure rejects renders
	// as the empty string even when a presentation closure is installed
	if p[0] != 4 {
		bad := nondetBool()
		s.SetValidityPolicy(func(...any) error {
			if bad {
				return sentinel
			}
			return nil
		})
		s.SetPresentationPolicy(func(...any) string { return "PRESENTED" })
		if bad {
			verifAssert(s.String() == "", "rejected-stack-renders-empty-despite-presentation-closure")
			verifAssert(Or().Push("x", s).String() == "x", "rejected-nested-stack-contributes-nothing")
		} else {
			verifAssert(s.String() == "PRESENTED", "accepted-stack-uses-presentation-closure")
		}
		s.SetValidityPolicy(nil)
		s.SetPresentationPolicy(nil)
		verifAssert(s.String() == builtinString, "both-removed")
	}
	vhAssertUnlocked(s, "after")
	verifReach("end")
}

// The validity closure alone decides, also for Conditions the built-in rules
// would reject.  p: which (0 empty keyword, 1 nil expression, 2 bare Init,
// 3 invalid operator code)
func VH_C14_CondValidityDecides(p []int) {
	var c Condition
	switch p[0] {
	case 0:
		c = Cond("", Eq, "v")
	case 1:
		c = Cond("kw", Eq, nil)
	case 2:
		c.Init()
	case 3:
		c = Cond("kw", ComparisonOperator(9), "v")
	}
	c.SetErr(nil)
	verifAssert(c.Valid() != nil, "built-in-rejects")
	sentinel := errorf("closure verdict")
	bad := nondetBool()
	c.SetValidityPolicy(func(...any) error {
		if bad {
			return sentinel
		}
		return nil
	})
	if bad {
		verifAssert(c.Valid() == sentinel, "closure-rejects-with-that-very-error")
		verifAssert(c.String() == "", "rejected-renders-empty")
	} else {
		verifAssert(c.Valid() == nil, "closure-accepts-alone-decides")
		_ = c.String() // must not panic whatever the parts are
	}
	c.SetValidityPolicy(nil)
	verifAssert(c.Valid() != nil, "built-in-restored")
	verifReach("end")
}

func VH_C14_CondClosures(p []int) {
	c := Cond("kw", Eq, "ex")
	c.condition.cfg.opt = cfgFlag(nondetUint16()) & (parens | cfold | nspad | nnest)
	other := Cond("kw", Ne, "ex")
	same := Cond("kw", Eq, "ex")
	builtinString := c.String()
	sentinel := errorf("sentinel")
	for step := 0; step < 2; step++ {
		which := nondetChoice(5)
		install := nondetBool()
		switch which {
		case 0:
			if install {
				bad := nondetBool()
				c.SetValidityPolicy(func(...any) error {
					if bad {
						return sentinel
					}
					return nil
				})
				if bad {
					verifAssert(c.Valid() == sentinel, "validity-closure-very-error")
					verifAssert(c.String() == "", "invalid-renders-empty")
				} else {
					verifAssert(c.Valid() == nil, "validity-closure-accepts")
				}
			}
			c.SetValidityPolicy(nil)
			verifAssert(c.Valid() == nil, "validity-restored")
		case 1:
			if install {
				c.SetPresentationPolicy(func(...any) string { return "PRESENTED" })
				verifAssert(c.String() == "PRESENTED", "presentation-closure-result")
			}
			c.SetPresentationPolicy(nil)
			verifAssert(c.String() == builtinString, "presentation-restored")
		case 2:
			if install {
				eq := nondetBool()
				c.SetEqualityPolicy(func(any, any) error {
					if eq {
						return nil
					}
					return sentinel
				})
				verifAssert((c.IsEqual(other) == nil) == eq, "equality-closure-result")
				verifAssert((c.IsEqual(same) == nil) == eq, "equality-closure-result-same")
				verifAssert((c.IsEqual(c) == nil) == eq, "equality-closure-result-self")
				verifAssert((c.IsEqual(vhAliasCond(c)) == nil) == eq, "equality-closure-result-self-alias")
				verifAssert((c.IsEqual(&c) == nil) == eq, "equality-closure-result-self-pointer")
			}
			c.SetEqualityPolicy()
			verifAssert(c.IsEqual(other) != nil, "equality-restored-different")
			verifAssert(c.IsEqual(same) == nil, "equality-restored-same")
		case 3:
			if install {
				c.SetUnmarshaler(func(...any) ([]any, error) { return []any{"U"}, sentinel })
				u, err := c.Unmarshal()
				verifAssert(len(u) == 1 && vhSame(u[0], "U") && err == sentinel, "unmarshal-closure-result")
			}
			c.SetUnmarshaler()
			u, err := c.Unmarshal()
			verifAssert(err == nil && len(u) == 4, "unmarshal-restored")
		case 4:
			_, err := c.Evaluate("x")
			verifAssert(err != nil, "evaluate-without-closure-errors")
			if install {
				c.SetEvaluator(func(x ...any) (any, error) { return len(x), sentinel })
				v, err := c.Evaluate("x", "y")
				verifAssert(vhSame(v, 2) && err == sentinel, "evaluate-closure-result")
			}
			c.SetEvaluator(nil)
			_, err = c.Evaluate("x")
			verifAssert(err != nil, "evaluate-restored")
		}
	}
	{
		bad := nondetBool()
		c.SetValidityPolicy(func(...any) error {
			if bad {
				return sentinel
			}
			return nil
		})
		c.SetPresentationPolicy(func(...any) string { return "PRESENTED" })
		if bad {
			verifAssert(c.String() == "", "rejected-condition-renders-empty-despite-presentation-closure")
		} else {
			verifAssert(c.String() == "PRESENTED", "accepted-condition-uses-presentation-closure")
		}
	}
	verifReach("end")
}
