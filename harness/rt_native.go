package stackage

// Harness runtime, native flavour: nondet values come from a replay vector.

import (
	"fmt"
	"reflect"
	"strconv"
	"sync"
)

var (
	vhVec   []string
	vhPos   int
	vhObs   []string
	vhLabel string
	vhReach map[string]bool
)

type vhAssertFail struct{ id string }
type vhAssumeFail struct{}

func vhNext() string {
	if vhPos < len(vhVec) {
		s := vhVec[vhPos]
		vhPos++
		return s
	}
	vhPos++
	return "0"
}

func nondetInt() int {
	v, _ := strconv.ParseInt(vhNext(), 10, 64)
	return int(v)
}

func nondetBool() bool { return vhNext() != "0" }

func nondetUint8() uint8 {
	v, _ := strconv.ParseUint(vhNext(), 10, 64)
	return uint8(v)
}

func nondetUint16() uint16 {
	v, _ := strconv.ParseUint(vhNext(), 10, 64)
	return uint16(v)
}

func nondetChoice(n int) int {
	v, _ := strconv.ParseInt(vhNext(), 10, 64)
	if v < 0 || int(v) >= n {
		panic(vhAssumeFail{})
	}
	return int(v)
}

func verifString(n int) string {
	b := make([]byte, n)
	for i := range b {
		b[i] = nondetUint8()
	}
	return string(b)
}

func verifAssume(c bool) {
	if !c {
		panic(vhAssumeFail{})
	}
}

func verifAssert(c bool, id string) {
	if !c {
		panic(vhAssertFail{id})
	}
}

func verifReach(id string) {
	if vhReach == nil {
		vhReach = map[string]bool{}
	}
	vhReach[id] = true
}

func vhFormat(v any) string {
	if v == nil {
		return "nil"
	}
	tn := fmt.Sprintf("%T", v)
	rv := reflect.ValueOf(v)
	switch rv.Kind() {
	case reflect.Bool:
		return tn + ":" + strconv.FormatBool(rv.Bool())
	case reflect.Int, reflect.Int8, reflect.Int16, reflect.Int32, reflect.Int64:
		return tn + ":" + strconv.FormatInt(rv.Int(), 10)
	case reflect.Uint, reflect.Uint8, reflect.Uint16, reflect.Uint32, reflect.Uint64, reflect.Uintptr:
		return tn + ":" + strconv.FormatUint(rv.Uint(), 10)
	case reflect.String:
		return tn + ":" + strconv.Quote(rv.String())
	case reflect.Float32, reflect.Float64, reflect.Complex64, reflect.Complex128:
		return tn + ":" + fmt.Sprintf("%v", v)
	}
	return tn
}

func verifObserve(tag string, v any) { vhObs = append(vhObs, tag+"="+vhFormat(v)) }

func verifCase(label string) { vhLabel = label }

func verifFuncID(f any) int {
	if f == nil {
		return 0
	}
	rv := reflect.ValueOf(f)
	if rv.Kind() != reflect.Func || rv.IsNil() {
		return 0
	}
	return int(rv.Pointer())
}

func verifIsEngine() bool { return false }

func verifFreeze(root any) {}
func verifThaw()           {}

// vhRaceMode: set by the replay driver when the run is under the race
// detector; vhQuery then performs the query from two goroutines at once.
var vhRaceMode bool

func vhQuery(f func() []any) []any {
	if !vhRaceMode {
		return f()
	}
	var wg sync.WaitGroup
	var other []any
	wg.Add(1)
	go func() {
		defer wg.Done()
		defer func() { recover() }()
		other = f()
	}()
	mine := f()
	wg.Wait()
	_ = other
	return mine
}

// ---- goroutines started by harnesses

var (
	vhWG       = new(sync.WaitGroup)
	vhGoMu     sync.Mutex
	vhGoPanic  any
	vhSchedOn  func() bool
	vhSchedGo  func(f func())
	vhSchedJn  func()
	vhSchedSet func(sched []int)
)

func verifShared(root any) {}

func vhGo(f func()) {
	if vhSchedOn != nil && vhSchedOn() {
		vhSchedGo(f)
		return
	}
	wg := vhWG // captured: a goroutine leaked by a deadlocked run must not disturb later runs
	wg.Add(1)
	go func() {
		defer wg.Done()
		defer func() {
			if r := recover(); r != nil {
				vhGoMu.Lock()
				vhGoPanic = r
				vhGoMu.Unlock()
			}
		}()
		f()
	}()
}

func verifJoin() {
	if vhSchedOn != nil && vhSchedOn() {
		vhSchedJn()
		return
	}
	vhWG.Wait()
	vhGoMu.Lock()
	p := vhGoPanic
	vhGoPanic = nil
	vhGoMu.Unlock()
	if p != nil {
		panic(p)
	}
}

// vhNewRun gives every native run its own WaitGroup and panic slot.
func vhNewRun() {
	vhWG = new(sync.WaitGroup)
	vhGoMu.Lock()
	vhGoPanic = nil
	vhGoMu.Unlock()
}
