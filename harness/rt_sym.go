package stackage

// Harness runtime, engine flavour: these functions have no bodies; the
// symbolic executor (/verif/engine) intercepts calls to them.  The native
// flavour with ordinary bodies is rt_native.go (used for replay).

// nondet*: arbitrary values of their type (solver variables).
func nondetInt() int
func nondetBool() bool
func nondetUint8() uint8
func nondetUint16() uint16

// nondetChoice(n): an arbitrary value in [0,n); the engine forks on it.
func nondetChoice(n int) int

// verifString(n): a string of n arbitrary bytes.
func verifString(n int) string

// verifAssume states a bound / precondition; verifAssert states the property.
func verifAssume(c bool)
func verifAssert(c bool, id string)

// verifReach marks a point that some path must reach (vacuity guard).
func verifReach(id string)

// verifObserve records a value for engine-vs-native path validation.
func verifObserve(tag string, v any)

// verifCase labels the input class of what follows (part of finding keys).
func verifCase(label string)

// verifFuncID returns an identity for a function value (0 for nil).
func verifFuncID(f any) int

// verifIsEngine is true under the symbolic executor, false natively.
func verifIsEngine() bool

// verifFreeze(root) ... verifThaw(): between the two, any store into memory
// reachable from root is a violation of kind "write" (engine only; natively
// such findings are confirmed under the race detector, see vhQuery).
func verifFreeze(root any)
func verifThaw()

// vhQuery runs a query; natively under the race detector it is run from two
// goroutines at once (rt_native.go).
func vhQuery(f func() []any) []any { return f() }

// verifShared(root): declares the structure shared by the goroutines that the
// harness starts with vhGo; verifJoin waits for all of them.
func verifShared(root any)
func verifJoin()

// vhGo starts a goroutine (an engine thread under the symbolic executor).
func vhGo(f func()) { go f() }

// vhNewRun resets per-run native state (nothing to do under the engine).
func vhNewRun() {}
