package stackage

// C15 — Transfer copies everything or reports failure, never touches the source.

// p: ns (source length), nd (destination length), variant (0 Stack, 1 alias,
// 2 pointer to alias, 3 read-only, 4 zero Stack, 5 foreign value, 6 nil,
// 7 the source itself, 8 an alias of the source, 9 a pointer to the source,
// 10/11 typed nil *Stack / *alias, 12-14 nil pointer chains (**Stack, **alias,
// ***Stack with a nil middle link), 15 a destination whose push policy refuses
// some of the offered values, 16 a no-nesting destination and a source holding
// a Stack)
func VH_C15(p []int) {
	ns, nd := p[0], p[1]
	vhPreMode = 2
	src := vhArbitraryStack(ns, 0, true, vhOptMask, 2, 2)
	srcSnap := vhSnapCfg(src.cfg)
	dst := vhArbitraryStack(nd, 1, false, vhOptMask&^ronly, 2, ns+1)
	for k := range dst.model { // make destination tokens distinct from the source's
		dst.model[k] = "d" + string(rune('0'+k))
		(*dst.s.stack)[k+1] = dst.model[k]
	}
	if p[2] == 3 {
		dst.cfg.opt |= ronly
	}
	refusals := 0
	if p[2] == 15 {
		// state another method left on the destination: a policy that
		// refuses an arbitrary subset of what it is offered
		sentinel := errorf("refused by the destination's policy")
		dst.s.SetPushPolicy(func(x ...any) error {
			if nondetBool() {
				return nil
			}
			refusals++
			return sentinel
		})
	}
	if p[2] == 16 {
		dst.cfg.opt |= nnest
		if ns > 0 {
			inner := Or().Push("nested")
			src.model[0] = inner
			(*src.s.stack)[1] = inner
			refusals = 1
		}
	}
	dstSnap := vhSnapCfg(dst.cfg)
	var target any
	usable := true
	switch p[2] {
	case 0, 3, 15, 16:
		target = dst.s
		usable = p[2] != 3
	case 1:
		target = vhAliasStack(dst.s)
	case 2:
		a := vhAliasStack(dst.s)
		target = &a
	case 4:
		target, usable = Stack{}, false
	case 5:
		target, usable = "not a stack", false
	case 6:
		target, usable = nil, false
	case 7:
		// the source cannot stay unchanged and receive its own elements
		target, usable = src.s, false
	case 8:
		target, usable = vhAliasStack(src.s), false
	case 9:
		target, usable = &src.s, false
	case 10:
		var p *Stack
		target, usable = p, false
	case 11:
		var p *vhAliasStack
		target, usable = p, false
	case 12:
		var p **Stack
		target, usable = p, false
	case 13:
		var p **vhAliasStack
		target, usable = p, false
	case 14:
		var mid **Stack
		target, usable = &mid, false
	}
	free := -1
	if dst.cfg.cap != 0 {
		free = dst.cfg.cap - 1 - nd
	}
	ok := src.s.Transfer(target)
	verifObserve("ok", ok)
	// the source is never touched
	vhInv(src.s, src.cfg, "src-inv")
	vhAssertCfgSame(srcSnap, vhSnapCfg(src.cfg), "src-cfg")
	vhAssertContent(src.s, src.model, "src-content")
	// destination
	vhInv(dst.s, dst.cfg, "dst-inv")
	if p[2] != 15 { // a refusal by the policy is reported through the destination's Err
		vhAssertCfgSame(dstSnap, vhSnapCfg(dst.cfg), "dst-cfg")
	}
	all := append(vhCopy(dst.model), src.model...)
	if ok {
		vhAssertContent(dst.s, all, "true-means-everything-copied")
	}
	if !usable {
		verifAssert(!ok, "unusable-destination-fails")
		vhAssertContent(dst.s, dst.model, "unusable-destination-unchanged")
	} else if free >= 0 && free < ns {
		verifAssert(!ok, "insufficient-room-fails")
		vhAssertContent(dst.s, dst.model, "insufficient-room-unchanged")
	} else if p[2] == 15 || p[2] == 16 {
		// the destination turned something away: not everything was copied
		if refusals > 0 {
			verifAssert(!ok, "refused-value-means-false")
		}
	} else {
		// enough room, usable destination, no policy: the copy must succeed
		verifAssert(ok, "enough-room-succeeds")
	}
	verifReach("end")
}
