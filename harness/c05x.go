package stackage

// C05 (continued) — leaf forms beyond the seeded universe of VH_C05: slices
// and arrays of pointers (with nil pointers), slices of slices, string
// slices, maps and structs whose interface-typed members are nil on one
// side, kind differences hidden behind a shared operator symbol, and
// comparands that are not Conditions at all.

type vhPtrStruct struct {
	P *int
	N int
}

type vhAnyStruct struct {
	A any
	N int
}

// vhLeafX builds leaf form t from the scalar values v (5 of them) and the
// shape bits nl (which pointer / interface members are nil).
func vhLeafX(t int, v []int, nl int) any {
	ptr := func(k int) *int {
		if nl&(1<<uint(k)) != 0 {
			return nil
		}
		x := v[k]
		return &x
	}
	switch t {
	case 0:
		return []*int{ptr(0), ptr(1), ptr(2)}
	case 1:
		return [2]*int{ptr(0), ptr(1)}
	case 2:
		return [][]int{{v[0], v[1]}, {v[2], v[3]}}
	case 3:
		m := map[string]any{"k1": v[0]}
		if nl&1 != 0 {
			m["k2"] = nil
		} else {
			m["k2"] = v[1]
		}
		return m
	case 4:
		if nl&1 != 0 {
			return vhAnyStruct{A: nil, N: v[1]}
		}
		return vhAnyStruct{A: v[0], N: v[1]}
	case 5:
		return vhPtrStruct{P: ptr(0), N: v[1]}
	case 6:
		if nl&1 != 0 {
			return &vhAnyStruct{A: nil, N: v[1]}
		}
		return &vhAnyStruct{A: v[0], N: v[1]}
	case 7:
		return map[int]int{1: v[0], 2: v[1]}
	case 12: // a pointer (possibly nil) as the leaf itself
		return ptr(0)
	case 13: // ... as a map value
		return map[string]*int{"k1": ptr(0), "k2": ptr(1)}
	case 9: // interface-typed elements holding a pointer (or nothing)
		if nl&1 != 0 {
			return []any{nil, v[1]}
		}
		return []any{ptr(1), v[1]}
	case 10: // ... holding a slice
		return []any{[]int{v[0], v[1]}, v[2]} // (slice, scalar)
	case 11: // ... holding a pointer to a pointer
		p := ptr(1)
		if p == nil {
			return []any{v[0], nil}
		}
		return []any{v[0], &p}
	}
	return []any{v[0], v[1]}
}

func vhPtrEq(a, b *int) bool {
	if a == nil || b == nil {
		return a == nil && b == nil
	}
	return *a == *b
}

// vhRefEqualX: reference verdict for two leaves of the same form t; known
// reports whether the statement fixes the verdict (nil pointers that are not
// slice/array elements are outside it).
func vhRefEqualX(t int, x, y any) (eq, known bool) {
	known = true
	switch t {
	case 0:
		a, b := x.([]*int), y.([]*int)
		eq = vhPtrEq(a[0], b[0]) && vhPtrEq(a[1], b[1]) && vhPtrEq(a[2], b[2])
	case 1:
		a, b := x.([2]*int), y.([2]*int)
		eq = vhPtrEq(a[0], b[0]) && vhPtrEq(a[1], b[1])
	case 2:
		a, b := x.([][]int), y.([][]int)
		eq = a[0][0] == b[0][0] && a[0][1] == b[0][1] && a[1][0] == b[1][0] && a[1][1] == b[1][1]
	case 3:
		a, b := x.(map[string]any), y.(map[string]any)
		eq = a["k1"] == b["k1"] && a["k2"] == b["k2"]
	case 4:
		a, b := x.(vhAnyStruct), y.(vhAnyStruct)
		eq = a.A == b.A && a.N == b.N
	case 5:
		a, b := x.(vhPtrStruct), y.(vhPtrStruct)
		eq = vhPtrEq(a.P, b.P) && a.N == b.N
	case 6:
		a, b := x.(*vhAnyStruct), y.(*vhAnyStruct)
		eq = a.A == b.A && a.N == b.N
	case 7:
		a, b := x.(map[int]int), y.(map[int]int)
		eq = a[1] == b[1] && a[2] == b[2]
	case 12:
		eq = vhPtrEq(x.(*int), y.(*int))
	case 13:
		a, b := x.(map[string]*int), y.(map[string]*int)
		eq = vhPtrEq(a["k1"], b["k1"]) && vhPtrEq(a["k2"], b["k2"])
	case 9:
		a, b := x.([]any), y.([]any)
		pa, _ := a[0].(*int)
		pb, _ := b[0].(*int)
		eq = vhPtrEq(pa, pb) && a[1] == b[1]
	case 10:
		a, b := x.([]any), y.([]any)
		sa, sb := a[0].([]int), b[0].([]int)
		eq = sa[0] == sb[0] && sa[1] == sb[1] && a[1] == b[1]
	case 11:
		a, b := x.([]any), y.([]any)
		var pa, pb *int
		if pp, ok := a[1].(**int); ok {
			pa = *pp
		}
		if pp, ok := b[1].(**int); ok {
			pb = *pp
		}
		eq = a[0] == b[0] && vhPtrEq(pa, pb)
	default:
		a, b := x.([]any), y.([]any)
		eq = a[0] == b[0] && a[1] == b[1]
	}
	return
}

// p: form, nlx, nly (nil-shape bits of either side), where (0 direct leaf of
// the root, 1 leaf of a stack nested two levels down, 2 Condition expression)
func VH_C05_Extra(p []int) {
	va := []int{nondetInt(), nondetInt(), nondetInt(), nondetInt()}
	vb := []int{nondetInt(), nondetInt(), nondetInt(), nondetInt()}
	lx, ly := vhLeafX(p[0], va, p[1]), vhLeafX(p[0], vb, p[2])
	want, known := vhRefEqualX(p[0], lx, ly)
	var x, y Stack
	switch p[3] {
	case 0:
		x, y = And().Push("a", lx), And().Push("a", ly)
	case 1:
		x = Or().Push(List().Push(And().Push(lx, "z")), "t")
		y = Or().Push(List().Push(And().Push(ly, "z")), "t")
	default:
		x, y = And().Push(Cond("kw", Ne, lx)), And().Push(Cond("kw", Ne, ly))
	}
	e1, e2 := x.IsEqual(y), y.IsEqual(x)
	verifObserve("eq", e1 == nil)
	verifAssert((e1 == nil) == (e2 == nil), "symmetric")
	if known {
		verifAssert((e1 == nil) == want, "verdict")
		verifAssert((e2 == nil) == want, "verdict-reverse")
	}
	verifReach("end")
}

// Kind, keyword and type differences that an option or an absent part may
// hide. p: case
func VH_C05_Hidden(p []int) {
	a, b := nondetInt(), nondetInt()
	differ := func(x, y interface{ IsEqual(any) error }, xa, ya any, id string) {
		verifAssert(x.IsEqual(ya) != nil, id)
		verifAssert(y.IsEqual(xa) != nil, id+"-reverse")
	}
	switch p[0] {
	case 0: // different kinds, same operator symbol, two levels down
		x := List().Push(And().SetSymbol("+").Push(a, "q"), "t")
		y := List().Push(Or().SetSymbol("+").Push(a, "q"), "t")
		differ(x, y, x, y, "kind-behind-shared-symbol")
		z := List().Push(And().SetSymbol("+").Push(b, "q"), "t")
		verifAssert((x.IsEqual(z) == nil) == (a == b), "same-kind-same-symbol")
	case 1: // different kinds at the root, same symbol, same fold
		x := And().SetSymbol("&").Fold(true).Push(a)
		y := Or().SetSymbol("&").Fold(true).Push(a)
		differ(x, y, x, y, "root-kind-behind-symbol")
	case 2: // a Condition without expression against a complete one
		x := Cond("kw", Eq, nil)
		y := Cond("kw", Eq, a)
		differ(x, y, x, y, "absent-expression")
		sx, sy := And().Push(x), And().Push(y)
		differ(sx, sy, sx, sy, "absent-expression-nested")
	case 3: // comparands that are no Condition
		x := Cond("kw", Eq, a)
		verifAssert(x.IsEqual(a) != nil, "condition-vs-int")
		verifAssert(x.IsEqual(And().Push(a)) != nil, "condition-vs-stack")
		verifAssert(x.IsEqual(nil) != nil, "condition-vs-nil")
		verifAssert(x.IsEqual(Condition{}) != nil, "condition-vs-zero-condition")
		verifAssert(x.IsEqual((*Condition)(nil)) != nil, "condition-vs-nil-pointer")
		// ... in either direction, whichever side is the unusable one
		var zc Condition
		verifAssert(zc.IsEqual(x) != nil, "zero-condition-receiver")
		var zs Stack
		verifAssert(zs.IsEqual(And().Push(a)) != nil, "zero-stack-receiver")
		s := And().Push(a)
		verifAssert(s.IsEqual(x) != nil, "stack-vs-condition")
		verifAssert(s.IsEqual(Stack{}) != nil, "stack-vs-zero-stack")
	case 6: // empty stacks differ by kind like any others, wherever they sit
		mk := func(k int) Stack { return []Stack{And(), Or(), Not(), List(), Basic()}[k] }
		i, j := nondetChoice(5), nondetChoice(5)
		verifAssert((mk(i).IsEqual(mk(j)) == nil) == (i == j), "empty-stacks-by-kind")
		x, y := List().Push("l", And().Push(mk(i))), List().Push("l", And().Push(mk(j)))
		verifAssert((x.IsEqual(y) == nil) == (i == j), "nested-empty-stacks-by-kind")
		verifAssert((y.IsEqual(x) == nil) == (i == j), "nested-empty-stacks-by-kind-reverse")
		cx, cy := Cond("k", Eq, mk(i)), Cond("k", Eq, mk(j))
		verifAssert((cx.IsEqual(cy) == nil) == (i == j), "empty-expression-stacks-by-kind")
	case 5: // an element that is a zero Stack / zero alias against a real one
		real := And().Push(a, "q")
		for _, z := range []any{Stack{}, vhAliasStack{}, Condition{}} {
			x, y := Or().Push("l", z), Or().Push("l", real)
			verifAssert(x.IsEqual(y) != nil, "zero-instance-vs-real")
			verifAssert(y.IsEqual(x) != nil, "real-vs-zero-instance")
			cx, cy := Cond("k", Eq, z), Cond("k", Eq, real)
			verifAssert(cx.IsEqual(cy) != nil, "zero-expression-vs-real")
			verifAssert(cy.IsEqual(cx) != nil, "real-vs-zero-expression")
		}
	case 4: // Conditions differing only in the expression's dynamic type
		x := Cond("kw", Eq, a)
		y := Cond("kw", Eq, "txt")
		differ(x, y, x, y, "expression-type")
		z := Cond("kw", Eq, &a)
		verifAssert(x.IsEqual(z) == nil, "pointer-flattened")
	}
	verifReach("end")
}
