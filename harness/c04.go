package stackage

// C04 — Marshal(Unmarshal(S)) reconstructs S.

// vhBuildC04 builds an expression tree from digits: stacks of every kind
// (empty ones included), Conditions whose expression is a primitive, a Stack
// or a Condition, leaves that are text, symbolic ints, bools or nil.
func vhBuildC04(g *vhDigits, depth, maxw int, label string) Stack {
	var s Stack
	switch g.next(5) {
	case 0:
		s = And()
	case 1:
		s = Or()
	case 2:
		s = Not()
	case 3:
		s = List()
	default:
		s = Basic()
	}
	cfg, _ := s.config()
	// options and the operator symbol are not carried by Unmarshal, and none
	// of them may disturb it: all symbolic at the root, by digit below it
	if label == "" {
		cfg.opt = cfgFlag(nondetUint16()) & vhOptMask
	} else {
		switch g.next(7) {
		case 0:
			cfg.opt = cfold
		case 1:
			cfg.opt = ronly
		case 2:
			cfg.opt = nspad | parens | lonce
		case 3:
			cfg.opt = negidx | fwdidx | nnest | cfold
		}
	}
	if cfg.typ != list && g.next(4) == 0 {
		cfg.sym = "&&"
	}
	w := g.next(maxw + 1)
	for i := 0; i < w; i++ {
		name := label + string(rune('a'+i))
		kinds := 8
		if depth <= 1 {
			kinds = 5
		}
		var el any
		switch g.next(kinds) {
		case 0:
			el = name
		case 1:
			el = nondetInt()
		case 2:
			el = nondetBool()
		case 3:
			el = nil
		case 4:
			el = vhCondC04(g, 0, name)
		case 5, 6:
			el = vhBuildC04(g, depth-1, maxw, name)
		case 7:
			el = vhCondC04(g, depth-1, name)
		}
		*s.stack = append(*s.stack, el)
	}
	return s
}

var vhSymOpBudget int

func vhCondC04(g *vhDigits, depth int, name string) Condition {
	code := uint8(1 + g.next(6))
	if vhSymOpBudget > 0 {
		// a bounded number of operators are solver variables over 1..6
		vhSymOpBudget--
		code = nondetUint8()
		verifAssume(code >= 1)
		verifAssume(code <= 6)
	}
	var ex any
	switch {
	case depth <= 0:
		switch g.next(3) {
		case 0:
			ex = "v" + name
		case 1:
			ex = nondetInt()
		default:
			ex = Cond("in"+name, Eq, "deep")
		}
	default:
		ex = vhBuildC04(g, depth, 2, name+"x")
	}
	switch g.next(8) {
	case 4:
		// options switched on after the parts were set (no-nesting included:
		// it only judges later assignments)
		c := Cond("k"+name, ComparisonOperator(code), ex)
		c.condition.cfg.opt = nnest | parens | nspad
		return c
	case 0, 1:
		// a user-defined operator must survive the round trip as well
		return Cond("k"+name, vhUserOp{"~" + string(rune('0'+code)), "approx"}, ex)
	case 2:
		// incomplete Conditions (no operator, no keyword) are content like any other
		return Cond("k"+name, nil, ex)
	case 3:
		return Cond("", ComparisonOperator(code), ex)
	}
	return Cond("k"+name, ComparisonOperator(code), ex)
}

func vhEqFold(a, b string) bool {
	if len(a) != len(b) {
		return false
	}
	for i := 0; i < len(a); i++ {
		x, y := a[i], b[i]
		if x >= 'a' && x <= 'z' {
			x -= 32
		}
		if y >= 'a' && y <= 'z' {
			y -= 32
		}
		if x != y {
			return false
		}
	}
	return true
}

// vhLeafEq compares primitive leaves by type and value.
func vhLeafEq(a, b any) bool {
	if a == nil || b == nil {
		return a == nil && b == nil
	}
	switch x := a.(type) {
	case string:
		y, ok := b.(string)
		return ok && x == y
	case int:
		y, ok := b.(int)
		return ok && x == y
	case bool:
		y, ok := b.(bool)
		return ok && x == y
	case ComparisonOperator:
		y, ok := b.(ComparisonOperator)
		return ok && x == y
	case vhUserOp:
		y, ok := b.(vhUserOp)
		return ok && x == y
	}
	return false
}

// vhTreeSame walks two trees in parallel: same kinds, lengths, per-slot types,
// leaf values and Condition parts.
func vhTreeSame(a, b any, id string) {
	if sa, ok := vhStackOf(a); ok {
		sb, ok2 := vhStackOf(b)
		verifAssert(ok2, id+"/stack-vs-other")
		if !ok2 {
			return
		}
		verifAssert(sa.stackType() == sb.stackType(), id+"/kind")
		verifAssert(sa.Len() == sb.Len(), id+"/len")
		if sa.Len() != sb.Len() {
			return
		}
		for i := 0; i < sa.Len(); i++ {
			vhTreeSame((*sa.stack)[i+1], (*sb.stack)[i+1], id+"/elem")
		}
		return
	}
	if ca, ok := vhCondOf(a); ok {
		cb, ok2 := vhCondOf(b)
		verifAssert(ok2, id+"/cond-vs-other")
		if !ok2 {
			return
		}
		verifAssert(ca.Keyword() == cb.Keyword(), id+"/keyword")
		verifAssert(vhLeafEq(ca.Operator(), cb.Operator()), id+"/operator")
		vhTreeSame(ca.Expression(), cb.Expression(), id+"/expr")
		return
	}
	_, bs := vhStackOf(b)
	_, bc := vhCondOf(b)
	verifAssert(!bs && !bc, id+"/leaf-vs-structure")
	verifAssert(vhLeafEq(a, b), id+"/leaf")
}

// vhShape checks that u is the unmarshalled form of s.
func vhShape(s Stack, u []any, id string) {
	verifAssert(len(u) == s.Len()+1, id+"/one-entry-per-element-plus-label")
	if len(u) != s.Len()+1 {
		return
	}
	lab, ok := u[0].(string)
	verifAssert(ok && vhEqFold(lab, s.stackType().String()), id+"/label")
	for i := 0; i < s.Len(); i++ {
		el := (*s.stack)[i+1]
		if sub, ok := vhStackOf(el); ok {
			inner, ok2 := u[i+1].([]any)
			verifAssert(ok2, id+"/nested-stack-expanded")
			if ok2 {
				vhShape(sub, inner, id+"/nested")
			}
		} else if c, ok := vhCondOf(el); ok {
			vhShapeRow(c, u[i+1], id)
		} else {
			verifAssert(vhLeafEq(u[i+1], el), id+"/leaf-passed-through")
		}
	}
}

// vhShapeRow checks that v is the CONDITION row of c: label, keyword, operator
// and the expression - itself expanded when it is a Stack or a Condition.
func vhShapeRow(c Condition, v any, id string) {
	row, ok2 := v.([]any)
	verifAssert(ok2 && len(row) == 4, id+"/condition-row")
	if !ok2 || len(row) != 4 {
		return
	}
	l, _ := row[0].(string)
	verifAssert(vhEqFold(l, "CONDITION"), id+"/condition-label")
	kw, _ := row[1].(string)
	verifAssert(kw == c.Keyword(), id+"/condition-keyword")
	verifAssert(vhLeafEq(row[2], c.Operator()), id+"/condition-operator")
	if sub, ok := vhStackOf(c.Expression()); ok {
		inner, ok3 := row[3].([]any)
		verifAssert(ok3, id+"/condition-stack-expanded")
		if ok3 {
			vhShape(sub, inner, id+"/condexpr")
		}
	} else if ic, isC := vhCondOf(c.Expression()); isC {
		// a Condition held by a Condition is expanded like any other
		vhShapeRow(ic, row[3], id+"/condcond")
	} else {
		verifAssert(vhLeafEq(row[3], c.Expression()), id+"/condition-expression")
	}
}

// vhShares reports whether the trees a and b have a Stack or Condition
// instance in common.
func vhShares(a, b any) bool {
	var insts []any
	var collect func(x any)
	collect = func(x any) {
		if s, ok := vhStackOf(x); ok {
			insts = append(insts, s.stack)
			for i := 1; i < len(*s.stack); i++ {
				collect((*s.stack)[i])
			}
		} else if c, ok := vhCondOf(x); ok {
			insts = append(insts, c.condition)
			collect(c.Expression())
		}
	}
	collect(a)
	found := false
	var look func(x any)
	look = func(x any) {
		if s, ok := vhStackOf(x); ok {
			for _, p := range insts {
				if q, ok := p.(*stack); ok && q == s.stack {
					found = true
				}
			}
			for i := 1; i < len(*s.stack); i++ {
				look((*s.stack)[i])
			}
		} else if c, ok := vhCondOf(x); ok {
			for _, p := range insts {
				if q, ok := p.(*condition); ok && q == c.condition {
					found = true
				}
			}
			look(c.Expression())
		}
	}
	look(b)
	return found
}

// vhDeepEq compares two unmarshalled slices (labels case-insensitively).
func vhDeepEq(a, b any, first bool) bool {
	if xa, ok := a.([]any); ok {
		xb, ok2 := b.([]any)
		if !ok2 || len(xa) != len(xb) {
			return false
		}
		for i := range xa {
			if !vhDeepEq(xa[i], xb[i], i == 0) {
				return false
			}
		}
		return true
	}
	if ca, ok := vhCondOf(a); ok {
		cb, ok2 := vhCondOf(b)
		return ok2 && ca.Keyword() == cb.Keyword() && vhLeafEq(ca.Operator(), cb.Operator())
	}
	if first {
		sa, ok := a.(string)
		sb, ok2 := b.(string)
		if ok && ok2 {
			return vhEqFold(sa, sb)
		}
	}
	return vhLeafEq(a, b)
}

// p: depth, maxw, digits...
func VH_C04(p []int) {
	g := &vhDigits{d: p[2:]}
	vhSymOpBudget = 1
	s := vhBuildC04(g, p[0], p[1], "")
	before := vhSnapDeep(s, 0)
	u, err := s.Unmarshal()
	verifAssert(err == nil, "unmarshal-error")
	vhShape(s, u, "shape")
	var r Stack
	if nondetChoice(2) == 0 {
		err = r.Marshal(u...)
	} else {
		err = r.Marshal(u) // the slice handed over as one argument
	}
	verifObserve("marshal-err", err != nil)
	verifAssert(err == nil, "marshal-error")
	verifAssert(r.IsInit(), "reconstruction-initialised")
	if !r.IsInit() {
		return
	}
	vhTreeSame(s, r, "tree")
	// a reconstruction, not a second set of handles on the original's parts
	verifAssert(!vhShares(s, r), "reconstruction-independent")
	u2, err2 := r.Unmarshal()
	verifAssert(err2 == nil, "unmarshal2-error")
	verifAssert(vhDeepEq(u, u2, false), "unmarshal-of-reconstruction-deep-equal")
	vhAssertNodeSame(before, vhSnapDeep(s, 0), "original-untouched")
	verifReach("end")
}

// p: depth, maxw, digits... — without folding, IsEqual between original and
// reconstruction succeeds in both directions.
func VH_C04_Equal(p []int) {
	g := &vhDigits{d: p[2:]}
	s := vhBuildC04(g, p[0], p[1], "")
	vhClearFold(s)
	u, _ := s.Unmarshal()
	var r Stack
	if err := r.Marshal(u...); err != nil || !r.IsInit() {
		verifAssert(false, "marshal-failed")
		return
	}
	verifAssert(s.IsEqual(r) == nil, "original-equals-reconstruction")
	verifAssert(r.IsEqual(s) == nil, "reconstruction-equals-original")
	verifReach("end")
}

func vhClearFold(x any) {
	if s, ok := vhStackOf(x); ok {
		cfg, _ := s.config()
		cfg.opt &^= cfold
		for i := 1; i < len(*s.stack); i++ {
			vhClearFold((*s.stack)[i])
		}
	} else if c, ok := vhCondOf(x); ok {
		vhClearFold(c.Expression())
	}
}
