package stackage

// C01 — ordered-list semantics under any operation history.
// (b) one inductive step from an arbitrary Inv pre-state, (c) bounded
// histories from the constructors.  The oracle is a plain Go slice.

// vhListOp applies one of the eight mutators to s and to the list model,
// asserting return values.  Indices address existing positions (statement);
// Insert takes any position (it clamps).  Returns the new model.
func vhListOp(s Stack, cfg *nodeConfig, model []any, op int, m int, tag string) []any {
	n := len(model)
	capped := cfg.cap != 0
	room := func(l int) bool { return !capped || l+1 < cfg.cap }
	switch op {
	case 0: // Push a batch of m values, nil values included
		vals := make([]any, m)
		for k := range vals {
			if nondetChoice(2) == 1 {
				vals[k] = nil
			} else {
				vals[k] = vhTokens[6+k]
			}
		}
		s.Push(vals...)
		for _, v := range vals {
			if room(len(model)) {
				model = append(model, v)
			}
		}
	case 1: // Pop
		v, ok := s.Pop()
		if n == 0 {
			verifAssert(!ok, tag+"pop-empty-fails")
			verifAssert(v == nil, tag+"pop-empty-nil")
		} else {
			var want any
			if cfg.ord {
				want = model[0]
				model = vhCopy(model[1:])
			} else {
				want = model[n-1]
				model = vhCopy(model[:n-1])
			}
			verifAssert(vhSame(v, want), tag+"pop-value")
			if want != nil {
				verifAssert(ok, tag+"pop-ok")
			}
		}
	case 2: // Insert at any position (clamped)
		left := nondetInt()
		ok := s.Insert("Z", left)
		if room(n) {
			verifAssert(ok, tag+"insert-ok")
			at := left
			if at < 0 {
				at = 0
			}
			if at > n {
				at = n
			}
			w := append(vhCopy(model[:at]), "Z")
			model = append(w, model[at:]...)
		} else {
			verifAssert(!ok, tag+"insert-full-fails")
		}
	case 3: // Remove an existing position
		if n == 0 {
			break
		}
		i := nondetInt()
		verifAssume(i >= 0)
		verifAssume(i < n)
		v, ok := s.Remove(i)
		if model[i] != nil {
			verifAssert(ok, tag+"remove-ok")
			verifAssert(vhSame(v, model[i]), tag+"remove-value")
			model = append(vhCopy(model[:i]), model[i+1:]...)
		} else if s.Len() == n-1 {
			// a nil element: either it is removed ...
			model = append(vhCopy(model[:i]), model[i+1:]...)
		} else {
			// ... or the call reports that nothing happened
			verifAssert(!ok, tag+"remove-nil-reports-failure")
		}
	case 4: // Replace an existing position
		if n == 0 {
			break
		}
		i := nondetInt()
		verifAssume(i >= 0)
		verifAssume(i < n)
		ok := s.Replace("Y", i)
		verifAssert(ok, tag+"replace-ok")
		model = vhCopy(model)
		model[i] = "Y"
	case 5: // Swap two existing positions
		if n == 0 {
			break
		}
		i, j := nondetInt(), nondetInt()
		verifAssume(i >= 0)
		verifAssume(i < n)
		verifAssume(j >= 0)
		verifAssume(j < n)
		s.Swap(i, j)
		model = vhCopy(model)
		model[i], model[j] = model[j], model[i]
	case 6: // Reverse
		s.Reverse()
		w := make([]any, n)
		for k := range model {
			w[n-1-k] = model[k]
		}
		model = w
	case 7: // Reset
		s.Reset()
		model = []any{}
	case 9: // switching off what is off, switching on what is on: nothing changes
		o := cfg.opt
		s.SetNegativeIndices(o&negidx != 0)
		s.SetForwardIndices(o&fwdidx != 0)
		s.SetNoNesting(o&nnest != 0)
		s.SetReadOnly(o&ronly != 0)
		s.SetParen(o&parens != 0)
		verifAssert(cfg.opt == o, tag+"redundant-option-calls-change-nothing")
	case 8: // SetFIFO: a one-way latch, whatever is passed later
		old := cfg.ord
		b := nondetBool()
		s.SetFIFO(b)
		verifAssert(cfg.ord == (old || b), tag+"fifo-latch")
		verifAssert(s.IsFIFO() == (old || b), tag+"IsFIFO")
	}
	return model
}

// vhAssertEnds checks IsEmpty, Front and Back against the model.
func vhAssertEnds(s Stack, fifo bool, model []any, id string) {
	n := len(model)
	verifAssert(s.IsEmpty() == (n == 0), id+"/IsEmpty")
	f, fok := s.Front()
	b, bok := s.Back()
	if n == 0 {
		verifAssert(!fok && f == nil, id+"/Front-empty")
		verifAssert(!bok && b == nil, id+"/Back-empty")
		return
	}
	newest, oldest := model[n-1], model[0]
	front, back := newest, oldest // LIFO: Front is the right-most element
	if fifo {
		front, back = oldest, newest
	}
	allNil := true
	for _, v := range model {
		if v != nil {
			allNil = false
		}
	}
	if front != nil {
		verifAssert(fok, id+"/Front-ok")
		verifAssert(vhSame(f, front), id+"/Front-value")
	} else if allNil {
		verifAssert(!fok, id+"/Front-allnil")
	}
	if back != nil {
		verifAssert(bok, id+"/Back-ok")
		verifAssert(vhSame(b, back), id+"/Back-value")
	} else if allNil {
		verifAssert(!bok, id+"/Back-allnil")
	}
}

// p: n, slack, m, op
func VH_C01_Step(p []int) {
	vhPreMode = 2
	pre := vhArbitraryStack(p[0], p[1], true, vhOptMask&^ronly, 2, 3)
	if len(p) > 4 && p[4] == 1 {
		// equal values at several positions and a value that cannot be
		// compared with ==: operations address positions, never values
		un := []string{"uncomparable"}
		for i := range pre.model {
			if pre.model[i] == nil {
				continue
			}
			if i%3 == 2 {
				pre.model[i] = un
			} else {
				pre.model[i] = "dup"
			}
			(*pre.s.stack)[i+1] = pre.model[i]
		}
	}
	snap := vhSnapCfg(pre.cfg)
	if p[3] == 8 {
		snap.ord = true // whatever the pre-state, SetFIFO may only ever switch it on
	}
	model := vhListOp(pre.s, pre.cfg, pre.model, p[3], p[2], "")
	if p[3] == 8 {
		snap.ord = pre.cfg.ord
	}
	vhInv(pre.s, pre.cfg, "inv")
	vhAssertCfgSame(snap, vhSnapCfg(pre.cfg), "cfg")
	vhAssertContent(pre.s, model, "content")
	vhAssertIndexViews(pre.s, model, "views")
	vhAssertEnds(pre.s, pre.cfg.ord, model, "ends")
	verifReach("end")
}

// vhCtor builds a stack through the public constructors: kind and capacity
// by fork, FIFO by fork.
func vhCtor(capMax int) (Stack, *nodeConfig) {
	var s Stack
	c := nondetChoice(capMax + 1) // 0 = no capacity
	switch nondetChoice(5) {
	case 0:
		s = And(c)
	case 1:
		s = Or(c)
	case 2:
		s = Not(c)
	case 3:
		s = List(c)
	default:
		s = Basic(c)
	}
	if nondetChoice(2) == 1 {
		s.SetFIFO(true)
	}
	cfg, _ := s.config()
	return s, cfg
}

// p: k (number of operations), m (push batch), capMax
func VH_C01_Hist(p []int) {
	s, cfg := vhCtor(p[2])
	model := []any{}
	for step := 0; step < p[0]; step++ {
		op := nondetChoice(10)
		model = vhListOp(s, cfg, model, op, p[1], "")
		vhInv(s, cfg, "inv")
		vhAssertContent(s, model, "content")
	}
	vhAssertIndexViews(s, model, "views")
	vhAssertEnds(s, cfg.ord, model, "ends")
	verifReach("end")
}

// The observers of the ordered list work on a read-only stack exactly as on
// any other.  p: n, slack
func VH_C01_ReadOnlyViews(p []int) {
	pre := vhArbitraryStack(p[0], p[1], true, vhOptMask, 2, 3)
	pre.cfg.opt |= ronly
	vhAssertContent(pre.s, pre.model, "content")
	vhAssertIndexViews(pre.s, pre.model, "views")
	vhAssertEnds(pre.s, pre.cfg.ord, pre.model, "ends")
	verifAssert(pre.s.IsReadOnly(), "IsReadOnly")
	verifReach("end")
}
