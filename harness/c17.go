package stackage

// C17 — uninitialised and freed instances are inert, not dangerous.
// The method tables are generated from the tree under test.

// p: method index, state (0 zero value, 1 freed, 2 freed through another handle)
func VH_C17_Stack(p []int) {
	m := vhAutoStack[p[0]]
	verifCase(m.name)
	var s Stack
	if p[1] == 1 {
		s = And().Push("a", nil, "b")
		err := s.Free()
		verifAssert(err == nil, "free-err")
		verifAssert(s.IsZero() && !s.IsInit(), "free-zeroes-handle")
	}
	if p[1] == 2 {
		// released through ANOTHER handle: what this handle, a parent and a
		// Condition still reach must stay harmless (only "no panic" is asked)
		o := And().Push("a", nil, "b")
		s = o
		parent := Or().Push("lead", o)
		c := Cond("kw", Eq, o)
		verifAssert(o.Free() == nil, "free-err")
		m.callS(&s)
		_ = parent.String()
		_ = parent.Len()
		parent.Traverse(1, 0)
		_, _ = parent.Unmarshal()
		parent.Reveal()
		parent.Defrag()
		_ = parent.IsEqual(parent)
		_ = parent.IsNesting()
		_ = c.String()
		_ = c.Len()
		_ = c.IsNesting()
		_, _ = c.Unmarshal()
		verifReach("end")
		return
	}
	vhTruthyWhenZero = vhIsTruthyPredicate(m.name)
	res := m.callS(&s)
	if m.name != "Stack.Marshal" {
		for _, r := range res {
			vhAssertZeroResult(r, "zero-result")
		}
		if (m.name == "Stack.IsEqual" || m.name == "Stack.Valid") && len(res) == 1 {
			verifAssert(res[0] != nil, "zero-instance-reports-an-error")
		}
		verifAssert(s.IsZero(), "stays-zero")
		verifAssert(!s.IsInit(), "stays-uninitialised")
	}
	verifReach("end")
}

// p: method index, state (0 zero value, 1 freed, 2 Init()-only, 3 Init()-only
// with an accept-all validity policy, 4 incomplete with such a policy and held
// by a parent)
func VH_C17_Cond(p []int) {
	m := vhAutoCond[p[0]]
	verifCase(m.name)
	var c Condition
	switch p[1] {
	case 1:
		// whatever it holds: text, a writable Stack, a read-only Stack (an
		// instance of its own, not the Condition's to release or to ask)
		held := Or().Push("x", "y")
		switch nondetChoice(4) {
		case 0:
			c = Cond("kw", Eq, "v")
		case 1:
			c = Cond("kw", Eq, held)
		case 2:
			c = Cond("kw", Eq, vhAliasStack(held.SetReadOnly(true)))
		default:
			held.SetReadOnly(true)
			c = Cond("kw", Eq, &held)
		}
		err := c.Free()
		verifAssert(err == nil, "free-err")
		verifAssert(c.IsZero() && !c.IsInit(), "free-zeroes-handle")
		verifAssert(held.IsInit() && held.Len() == 2, "free-leaves-the-expression-alone")
	case 2:
		c.Init()
		verifAssert(c.IsInit(), "Init-initialises")
	case 3:
		// Init()-only, with a validity policy that accepts everything: the
		// built-in completeness rules no longer stand in front of any method
		c.Init()
		c.SetValidityPolicy(func(...any) error { return nil })
	case 4:
		// the same, held by a parent whose rendering reaches it
		c.Init()
		c.SetKeyword("kw")
		c.SetExpression("ex")
		c.SetValidityPolicy(func(...any) error { return nil })
		parent := And().Push("lead", c, Or().Push(c))
		m.callC(&c)
		_ = parent.String()
		_, _ = parent.Unmarshal()
		_ = parent.IsEqual(And().Push("lead", c, Or().Push(c)))
		verifReach("end")
		return
	}
	vhTruthyWhenZero = vhIsTruthyPredicate(m.name)
	res := m.callC(&c)
	if p[1] < 2 && m.name != "Condition.Init" {
		for _, r := range res {
			vhAssertZeroResult(r, "zero-result")
		}
		if (m.name == "Condition.IsEqual" || m.name == "Condition.Valid") && len(res) == 1 {
			// an instance that holds nothing is neither valid nor equal to anything
			verifAssert(res[0] != nil, "zero-instance-reports-an-error")
		}
		verifAssert(c.IsZero(), "stays-zero")
	}
	verifReach("end")
}

// p: method index — nil Auxiliary
func VH_C17_Aux(p []int) {
	m := vhAutoAux[p[0]]
	verifCase(m.name)
	var a Auxiliary
	res := m.callA(&a)
	for _, r := range res {
		vhAssertZeroResult(r, "zero-result")
	}
	verifAssert(a == nil, "stays-nil")
	verifReach("end")
}

// p: function index — package-level functions with arbitrary arguments
func VH_C17_Func(p []int) {
	m := vhAutoFuncs[p[0]]
	verifCase(m.name)
	vhVarMax = 1
	vhIntCap = 64
	res := m.callF()
	// a conversion never reports success together with a zero-valued result
	if len(res) == 2 {
		if ok, isBool := res[1].(bool); isBool {
			switch x := res[0].(type) {
			case Stack:
				verifAssert(ok == !x.IsZero(), "converted-iff-usable")
				if ok {
					_ = x.Len()
					_ = x.String()
				}
			case Condition:
				verifAssert(ok == !x.IsZero(), "converted-iff-usable")
			}
		}
	}
	verifReach("end")
}

// p: n — Reset removes every element, nil ones included, and keeps the
// configuration; Free on a read-only instance reports an error.
func VH_C17_ResetFree(p []int) {
	pre := vhArbitraryStack(p[0], 1, true, vhOptMask, 2, 2)
	if nondetChoice(2) == 1 {
		// whether a validity policy currently accepts the content is no
		// business of Reset and Free
		pre.cfg.vpf = func(...any) error { return errorf("content not acceptable") }
	}
	snap := vhSnapCfg(pre.cfg)
	ro := pre.cfg.opt&ronly != 0
	pre.s.Reset()
	vhInv(pre.s, pre.cfg, "inv")
	vhAssertCfgSame(snap, vhSnapCfg(pre.cfg), "reset-keeps-configuration")
	if ro {
		vhAssertContent(pre.s, pre.model, "read-only-reset-ignored")
	} else {
		verifAssert(pre.s.Len() == 0, "reset-empties")
		verifAssert(pre.s.IsEmpty(), "reset-IsEmpty")
	}
	h := pre.s
	err := h.Free()
	if ro {
		verifAssert(err != nil, "free-read-only-errors")
		verifAssert(h.IsInit(), "free-read-only-keeps")
	} else {
		verifAssert(err == nil, "free-ok")
		verifAssert(h.IsZero(), "free-zeroes")
		verifAssert(!h.IsInit(), "free-uninit")
	}
	verifReach("end")
}
