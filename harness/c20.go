package stackage

// C20 — Reveal only removes redundant wrappers.

import "sync"

// vhBuildC20 builds a tree for Reveal: kinds by digit, single-child chains
// favoured, Conditions holding stacks, empty stacks, mutex-enabled nodes;
// the parenthetical bit and the index-option bits of every node are symbolic.
func vhBuildC20(g *vhDigits, depth, maxw int, label string, nodes *[]Stack) Stack {
	var s Stack
	switch g.next(5) {
	case 0, 1:
		s = And()
	case 2:
		s = Or()
	case 3:
		s = Not()
	default:
		s = List()
	}
	cfg, _ := s.config()
	if len(*nodes) < 5 {
		// the first five nodes of a tree: all four bits are solver variables
		cfg.opt = cfgFlag(nondetUint16()) & (parens | negidx | fwdidx | ronly)
	} else {
		// further nodes: drawn with the shape (keeps the path count of a
		// single large tree from dwarfing the rest of the tier)
		v := g.next(16)
		if v&1 != 0 {
			cfg.opt |= parens
		}
		if v&2 != 0 {
			cfg.opt |= negidx
		}
		if v&4 != 0 {
			cfg.opt |= fwdidx
		}
		if v&8 != 0 {
			cfg.opt |= ronly
		}
	}
	// display options must not influence which wrappers are removed
	switch g.next(4) {
	case 1:
		cfg.opt |= cfold
	case 2:
		if cfg.typ != list {
			cfg.sym = "!"
		}
	}
	if g.next(3) == 0 {
		cfg.mtx = &sync.Mutex{}
	}
	*nodes = append(*nodes, s)
	w := g.next(maxw + 1)
	if g.next(2) == 0 {
		w = 1 // single-child chains are what Reveal is about
	}
	for i := 0; i < w; i++ {
		name := label + string(rune('a'+i))
		kinds := 6
		if depth <= 1 || len(*nodes) >= 9 {
			kinds = 3 // leaves only: depth bound, or the tree has 9 Stack nodes already
		}
		var el any
		switch g.next(kinds) {
		case 0:
			el = name
		case 1:
			el = 7
		case 2:
			c := Cond("k"+name, Eq, "v"+name)
			c.condition.cfg.opt = cfgFlag(nondetUint16()) & parens
			el = c
		case 3, 4:
			// native, alias, pointer to alias, pointer to native
			el = vhWrapStack(vhBuildC20(g, depth-1, maxw, name, nodes), []int{0, 0, 1, 3, 4}[g.next(5)])
		case 5:
			c := Cond("k"+name, Ne, vhWrapStack(vhBuildC20(g, depth-1, maxw, name, nodes), []int{0, 0, 1, 3}[g.next(4)]))
			c.condition.cfg.opt = cfgFlag(nondetUint16()) & parens
			el = c
		}
		*s.stack = append(*s.stack, el)
	}
	return s
}

// vhLeaves appends the depth-first leaf sequence: primitive leaves, and for
// each Condition its keyword and operator (then its expression's leaves).
func vhLeaves(x any, out []any) []any {
	if s, ok := vhStackOf(x); ok {
		for i := 1; i < len(*s.stack); i++ {
			out = vhLeaves((*s.stack)[i], out)
		}
		return out
	}
	if c, ok := vhCondOf(x); ok {
		out = append(out, "cond:"+c.Keyword()+":"+c.Operator().String())
		return vhLeaves(c.Expression(), out)
	}
	return append(out, x)
}

func vhDepth(x any) int {
	if s, ok := vhStackOf(x); ok {
		d := 0
		for i := 1; i < len(*s.stack); i++ {
			if k := vhDepth((*s.stack)[i]); k > d {
				d = k
			}
		}
		return d + 1
	}
	if c, ok := vhCondOf(x); ok {
		return vhDepth(c.Expression())
	}
	return 0
}

// vhContains reports whether the stack instance st occurs in the tree x.
func vhContains(x any, st *stack) bool {
	if s, ok := vhStackOf(x); ok {
		if s.stack == st {
			return true
		}
		for i := 1; i < len(*s.stack); i++ {
			if vhContains((*s.stack)[i], st) {
				return true
			}
		}
		return false
	}
	if c, ok := vhCondOf(x); ok {
		return vhContains(c.Expression(), st)
	}
	return false
}

type vhNF struct {
	kind  string // stack kind, "cond" or "leaf"
	paren bool
	leaf  any
	kw    string
	kids  []*vhNF
}

// vhNormal computes the fully-unwrapped form: a non-parenthetical, non-NOT
// stack with exactly one non-parenthetical Stack or Condition child is
// replaced by that child, everywhere, until nothing changes.
func vhNormal(x any) *vhNF {
	if s, ok := vhStackOf(x); ok {
		cfg, _ := s.config()
		paren := cfg.opt&parens != 0
		if s.Len() == 1 && cfg.typ != not && !paren {
			child := (*s.stack)[1]
			if cs, ok := vhStackOf(child); ok {
				ccfg, _ := cs.config()
				if ccfg.opt&parens == 0 {
					return vhNormal(child)
				}
			} else if cc, ok := vhCondOf(child); ok {
				if cc.condition.cfg.opt&parens == 0 {
					return vhNormal(child)
				}
			}
		}
		n := &vhNF{kind: cfg.typ.String(), paren: paren}
		for i := 1; i < len(*s.stack); i++ {
			n.kids = append(n.kids, vhNormal((*s.stack)[i]))
		}
		return n
	}
	if c, ok := vhCondOf(x); ok {
		n := &vhNF{kind: "cond", paren: c.condition.cfg.opt&parens != 0, kw: c.Keyword() + c.Operator().String()}
		n.kids = []*vhNF{vhNormal(c.Expression())}
		return n
	}
	return &vhNF{kind: "leaf", leaf: x}
}

func vhNFSame(a, b *vhNF, id string) {
	verifAssert(a.kind == b.kind, id+"/kind")
	verifAssert(a.paren == b.paren, id+"/paren")
	verifAssert(a.kw == b.kw, id+"/cond")
	verifAssert(vhSame(a.leaf, b.leaf), id+"/leaf")
	verifAssert(len(a.kids) == len(b.kids), id+"/arity")
	if len(a.kids) == len(b.kids) && a.kind == b.kind {
		for i := range a.kids {
			vhNFSame(a.kids[i], b.kids[i], id+"/kid")
		}
	}
}

// p: depth, maxw, digits...
func VH_C20(p []int) {
	g := &vhDigits{d: p[2:]}
	var nodes []Stack
	root := vhBuildC20(g, p[0], p[1], "", &nodes)
	vhCheckReveal(root, nodes)
}

// vhCollect lists every Stack node of a tree.
func vhCollect(x any, out *[]Stack) {
	if s, ok := vhStackOf(x); ok {
		*out = append(*out, s)
		for i := 1; i < len(*s.stack); i++ {
			vhCollect((*s.stack)[i], out)
		}
	} else if c, ok := vhCondOf(x); ok {
		vhCollect(c.Expression(), out)
	}
}

// Hand-built shapes: NOT wrappers whose display word is folded or replaced by
// a symbol, mutex-enabled single-child envelopes at every slot, chains.
// p: which
func VH_C20_Named(p []int) {
	var root Stack
	pb := func() bool { return nondetBool() }
	switch p[0] {
	case 0:
		root = And().Push("x", Not().SetFold(true).SetParen(pb()).Push(Or().SetParen(pb()).Push("a", "b")))
	case 1:
		root = Or().Push(Not().SetSymbol("!").SetParen(pb()).Push(Cond("k", Eq, "v").SetParen(pb())), "y")
	case 2:
		root = And().Push(Not().SetFold(true).Push(Not().SetSymbol("~").Push(And().Push("deep"))))
	case 3: // mutex-enabled single-child envelope at slot 0, 1, 2
		env := func() Stack { return Or().SetMutex().SetParen(pb()).Push(And().SetParen(pb()).Push("m1", "m2")) }
		root = And().SetMutex().Push(env(), env(), env())
	case 4: // chain of single wrappers ending in a condition holding a stack
		root = And().Push(Or().Push(And().SetMutex().Push(Cond("k", Ne, List().Push(Or().Push("z"))))))
	case 5:
		root = List().Push(And().SetFold(true).Push(Or().SetSymbol("|").Push("p", "q")), Not().Push(And().Push("r")))
	case 6: // a lone NOT inside a redundant wrapper's single-child chain
		root = And().Push("lead", Or().SetParen(pb()).Push(Not().SetParen(pb()).Push(And().SetParen(pb()).Push(Cond("a", Eq, "1"), Cond("b", Ne, "2")))), "tail")
	case 7: // wrapper chains of length three in the middle of a parent
		root = Or().Push("l", And().Push(Or().Push(And().Push("x", "y"))), Not().Push(Or().Push(Not().Push("z"))), "r")
	case 8: // a typed nil pointer as the only child of a wrapper
		root = And().Push("a", Or().SetParen(pb()).Push((*Stack)(nil)), "b")
	case 9:
		root = And().Push(Or().SetParen(pb()).Push((*Condition)(nil)), List().Push((*vhAliasStack)(nil)))
	case 13: // chains of lone envelopes in the LAST slot of nodes with index options
		chain := func() Stack { return Or().Push(And().Push(Or().Push(And().Push("x", "y")))) }
		root = And().Push("a", chain())
		inner := List().Push("b", Or().Push(Cond("k", Eq, "v")), chain())
		*root.stack = append(*root.stack, inner)
		for _, n := range []Stack{root, inner} {
			cfg, _ := n.config()
			cfg.opt = cfgFlag(nondetUint16()) & (negidx | fwdidx | parens)
		}
	case 12: // receivers that hold nothing: Reveal is a no-op, not a crash
		var z Stack
		z.Reveal()
		f := And().Push(Or().Push(And().Push("x", "y")))
		h := f
		_ = f.Free()
		f.Reveal()
		Stack(vhAliasStack{}).Reveal()
		root = h
	case 11: // zero-valued instances in the first slot, a needless envelope behind them
		var first any
		switch nondetChoice(4) {
		case 0:
			first = vhAliasStack{}
		case 1:
			first = &Stack{}
		case 2:
			first = Cond("k", Eq, vhAliasStack{})
		default:
			first = Stack{}
		}
		root = And().SetMutex().Push(first, Or().SetParen(pb()).Push(And().Push("x", "y")), Or().Push(Cond("c", Ne, "v")))
	case 10: // read-only, mutex-enabled nested nodes
		ro := func(s Stack) Stack { return s.SetMutex().SetReadOnly(true) }
		root = And().SetMutex().Push(ro(Or().Push("x", "y")), ro(Or().SetParen(pb()).Push(And().Push("p", "q"))), ro(Not().Push(Or().Push("n"))))
	}
	var nodes []Stack
	vhCollect(root, &nodes)
	vhCheckReveal(root, nodes)
	// a second Reveal finds nothing left to do and nothing left locked
	leaves := vhLeaves(root, nil)
	root.Reveal()
	after := vhLeaves(root, nil)
	verifAssert(len(after) == len(leaves), "second-reveal/leaf-count")
	if len(after) == len(leaves) {
		for i := range leaves {
			verifAssert(vhSame(after[i], leaves[i]), "second-reveal/leaf-sequence")
		}
	}
	for _, n := range nodes {
		if cfg, _ := n.config(); cfg != nil {
			verifAssert(cfg.ldr == nil, "second-reveal/lock-released")
		}
	}
}

// vhForms records, for every Stack instance held somewhere in the tree x, the
// dynamic type of the value holding it.
func vhForms(x any, out map[*stack]int) {
	if s, ok := vhStackOf(x); ok {
		out[s.stack] = vhFormOf(x)
		for i := 1; i < len(*s.stack); i++ {
			vhForms((*s.stack)[i], out)
		}
	} else if c, ok := vhCondOf(x); ok {
		vhForms(c.Expression(), out)
	}
}

func vhCheckReveal(root Stack, nodes []Stack) {
	forms := map[*stack]int{}
	vhForms(root, forms)
	leaves := vhLeaves(root, nil)
	depth := vhDepth(root)
	nf := vhNormal(root)
	// which nodes must survive: parenthetical ones and NOTs
	type keep struct {
		st   *stack
		must bool
	}
	var keeps []keep
	for _, n := range nodes {
		cfg, _ := n.config()
		keeps = append(keeps, keep{n.stack, cfg.opt&parens != 0 || cfg.typ == not})
	}
	root.Reveal()
	after := vhLeaves(root, nil)
	verifAssert(len(after) == len(leaves), "leaf-count")
	if len(after) == len(leaves) {
		for i := range leaves {
			verifAssert(vhSame(after[i], leaves[i]), "leaf-sequence")
		}
	}
	verifAssert(vhDepth(root) <= depth, "depth-never-grows")
	for _, k := range keeps {
		if k.must {
			verifAssert(vhContains(root, k.st), "paren-and-NOT-nodes-survive")
		}
	}
	vhNFSame(nf, vhNormal(root), "same-normal-form")
	// what survives is still the value it was: an alias or a pointer is not
	// exchanged for the native value it converts to
	after2 := map[*stack]int{}
	vhForms(root, after2)
	for _, n := range nodes {
		if f, still := after2[n.stack]; still && n.stack != root.stack {
			verifAssert(f == forms[n.stack], "element-keeps-its-type")
		}
	}
	// locks are all released
	for _, n := range nodes {
		if cfg, _ := n.config(); cfg != nil {
			verifAssert(cfg.ldr == nil, "lock-released")
		}
	}
	verifReach("end")
}
