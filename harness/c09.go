package stackage

// C09 — a read-only Stack or Condition cannot be changed.
// C11 — queries never modify anything (same receivers, see c11.go).

import "sync"

// vhRich builds a Stack with nested content and a non-default configuration
// (so that both "set" and "unset" mutations are visible): element 0 a nested
// Stack (native or alias), element 1 a Condition whose expression is a Stack,
// element 2 text, element 3 an int.  Option bits are symbolic.  variant bit 0:
// user closures installed; bit 1: mutex enabled; bit 2: capacity set; bit 3: a
// nested Condition has a failing unmarshaler; bit 4: no comparison function
// and a validity policy that rejects.
func vhRich(variant int, optMask cfgFlag) (Stack, *nodeConfig) {
	capMode := 0
	if variant&4 != 0 {
		capMode = 1
	}
	pre := vhArbitraryStack(4, 1, false, optMask, capMode, 1)
	cfg := pre.cfg
	inner := And().Push("i1", nil, "i2", float32(2.5))
	// both the nested Condition and the Stack it holds quote their values
	cexp := Or().Push("c1", 0.125, true).SetEncap("'")
	c := Cond("kw", Ge, cexp).SetEncap([]string{"[", "]"})
	st := *pre.s.stack
	st[1] = vhWrapStack(inner, nondetChoice(2))
	st[2] = c
	st[3] = "leaf"
	st[4] = 7
	cfg.id, cfg.cat = "id0", "cat0"
	if cfg.typ == list {
		cfg.ljc = ","
	} else {
		cfg.sym = "&"
	}
	// a one-character set handed over as a slice with room to spare
	quote := make([]string, 1, 3)
	quote[0] = "\""
	cfg.enc = [][]string{quote}
	cfg.aux = Auxiliary{"k": 1}
	cfg.err = errorf("previous error")
	cfg.lss = func(i, j int) bool { return false }
	if variant&1 != 0 {
		cfg.ppf = func(...any) error { return nil }
		cfg.vpf = func(...any) error { return nil }
		if cfg.typ != basic {
			cfg.rpf = func(...any) string { return "presented" }
		}
		cfg.eqf = func(any, any) error { return nil }
		cfg.umf = func(...any) ([]any, error) { return []any{"custom"}, nil }
		cfg.maf = func(...any) error { return nil }
	}
	if variant&8 != 0 {
		// only a NESTED Condition carries an unmarshaler, and it fails
		c.condition.cfg.umf = func(...any) ([]any, error) { return nil, errorf("nested unmarshaler refuses") }
	}
	if variant&16 != 0 {
		// no comparison function installed; a validity policy that currently
		// rejects the instance (neither may matter to any guard)
		cfg.lss = nil
		cfg.vpf = func(...any) error { return errorf("content not acceptable") }
	}
	if variant&2 != 0 {
		cfg.mtx = &sync.Mutex{}
		inner.SetMutex()
		cexp.SetMutex()
	}
	return pre.s, cfg
}

// vhRichCond builds a Condition with a Stack expression and a non-default
// configuration.  variant bit 0: closures installed; bit 1: text expression.
func vhRichCond(variant int, optMask cfgFlag) Condition {
	var c Condition
	if variant&2 != 0 {
		c = Cond("kw", Lt, "text")
	} else {
		// the Stack expression is native, an alias or a pointer to an alias
		c = Cond("kw", Lt, vhWrapStack(Or().Push("x1", "x2").SetEncap("'"), []int{0, 1, 3}[nondetChoice(3)]))
	}
	cfg := c.condition.cfg
	cfg.opt = cfgFlag(nondetUint16()) & optMask
	cfg.id, cfg.cat = "cid", "ccat"
	cfg.enc = [][]string{{"<", ">"}}
	cfg.aux = Auxiliary{"k": 1}
	cfg.err = errorf("previous error")
	if variant&1 != 0 {
		cfg.vpf = func(...any) error { return nil }
		cfg.rpf = func(...any) string { return "presented" }
		cfg.eqf = func(any, any) error { return nil }
		cfg.umf = func(...any) ([]any, error) { return []any{"custom"}, nil }
		cfg.evl = func(...any) (any, error) { return nil, nil }
	}
	return c
}

// p: method index, variant
func VH_C09_Stack(p []int) {
	m := vhAutoStack[p[0]]
	verifCase(m.name)
	s, cfg := vhRich(p[1], vhOptMask)
	cfg.opt |= ronly
	vhAnyLimit = 12
	before := vhSnapDeep(s, 0)
	h := s
	res := m.callS(&h)
	after := vhSnapDeep(s, 0)
	switch m.name {
	case "Stack.SetReadOnly", "Stack.ReadOnly":
		// the documented exception: only the read-only bit itself may change
		verifAssert(before.cfg.opt&^ronly == after.cfg.opt&^ronly, "only-the-ronly-bit")
		before.cfg.opt = after.cfg.opt
	case "Stack.SetErr":
		before.cfg.err = after.cfg.err
	case "Stack.Free":
		verifAssert(len(res) == 1 && res[0] != nil, "free-reports-error")
		verifAssert(h.IsInit(), "free-keeps-instance")
	}
	verifAssert(h.stack == s.stack, "handle-unchanged")
	vhAssertNodeSame(before, after, "unchanged")
	vhAssertUnlocked(s, "after-call")
	// clearing the flag restores mutability with the state as it was
	s.SetReadOnly(false)
	cleared := vhSnapDeep(s, 0)
	verifAssert(cleared.cfg.opt == after.cfg.opt&^ronly, "clear-flag-only")
	after.cfg.opt = cleared.cfg.opt
	vhAssertNodeSame(after, cleared, "clear-keeps-state")
	l := s.Len()
	s.Replace("changed", 2)
	v, _ := s.Index(2)
	verifAssert(vhSame(v, "changed"), "mutable-again")
	verifAssert(s.Len() == l, "mutable-again-len")
	verifReach("end")
}

// p: method index, variant
func VH_C09_Cond(p []int) {
	m := vhAutoCond[p[0]]
	verifCase(m.name)
	c := vhRichCond(p[1], vhOptMask)
	c.condition.cfg.opt |= ronly
	vhAnyLimit = 12
	before := vhSnapDeep(c, 0)
	h := c
	res := m.callC(&h)
	after := vhSnapDeep(c, 0)
	switch m.name {
	case "Condition.SetReadOnly":
		verifAssert(before.cfg.opt&^ronly == after.cfg.opt&^ronly, "only-the-ronly-bit")
		before.cfg.opt = after.cfg.opt
	case "Condition.SetErr":
		before.cfg.err = after.cfg.err
	case "Condition.Free":
		verifAssert(len(res) == 1 && res[0] != nil, "free-reports-error")
		verifAssert(h.IsInit(), "free-keeps-instance")
	}
	if m.name != "Condition.Init" {
		verifAssert(h.condition == c.condition, "handle-unchanged")
	}
	vhAssertNodeSame(before, after, "unchanged")
	c.SetReadOnly(false)
	cleared := vhSnapDeep(c, 0)
	verifAssert(cleared.cfg.opt == after.cfg.opt&^ronly, "clear-flag-only")
	c.SetKeyword("changed")
	verifAssert(c.Keyword() == "changed", "mutable-again")
	verifReach("end")
}

// p: first method, second method, variant — pairs of calls on a read-only Stack
func VH_C09_StackPair(p []int) {
	m1, m2 := vhAutoStack[p[0]], vhAutoStack[p[1]]
	verifCase(m1.name + "+" + m2.name)
	s, cfg := vhRich(p[2], vhOptMask)
	cfg.opt |= ronly
	vhAnyLimit = 5
	vhVarMax = 1
	before := vhSnapDeep(s, 0)
	h := s
	m1.callS(&h)
	if h.stack == s.stack && cfg.opt&ronly != 0 {
		m2.callS(&h)
	}
	after := vhSnapDeep(s, 0)
	before.cfg.opt = before.cfg.opt&^ronly | after.cfg.opt&ronly
	if m1.name == "Stack.SetErr" || m2.name == "Stack.SetErr" {
		before.cfg.err = after.cfg.err
	}
	if cfg.opt&ronly != 0 {
		vhAssertNodeSame(before, after, "unchanged")
	}
	verifReach("end")
}

// A read-only Stack handed as an ARGUMENT to every method of another,
// writable Stack must not change either.  p: method index, variant
func VH_C09_AsArgument(p []int) {
	m := vhAutoStack[p[0]]
	verifCase(m.name)
	ro, cfg := vhRich(p[1], vhOptMask)
	cfg.opt |= ronly
	vhSpecial = vhWrapStack(ro, nondetChoice(4))
	vhAnyLimit = 5
	vhVarMax = 1
	other := And().Push("o1", "o2")
	before := vhSnapDeep(ro, 0)
	h := other
	m.callS(&h)
	vhAssertNodeSame(before, vhSnapDeep(ro, 0), "read-only-argument-unchanged")
	vhAssertUnlocked(ro, "argument")
	vhAssertUnlocked(other, "receiver")
	verifReach("end")
}

// A read-only Stack NESTED below a writable one (as an element, wrapped in a
// single-child envelope, and as a Condition's expression) must not change
// when a method is called on the writable parent: several methods (Reveal,
// Defrag, Reset, Transfer, ...) descend into or re-arrange what they hold.
// p: method index, variant, nesting (0 element, 1 enveloped element, 2
// Condition expression)
func VH_C09_NestedUnderParent(p []int) {
	m := vhAutoStack[p[0]]
	verifCase(m.name)
	// redundant single-child wrappers and nil gaps inside: bait for Reveal / Defrag
	ro := And().Push(Or().Push(And().Push("deep1", "deep2")), "r2", nil, "r4")
	cfg, _ := ro.config()
	cfg.opt = cfgFlag(nondetUint16())&(vhOptMask&^ronly) | ronly
	if p[1]&2 != 0 {
		ro.SetReadOnly(false).SetMutex().SetReadOnly(true)
	}
	var parent Stack
	switch p[2] {
	case 0:
		parent = Or().Push("p0", vhWrapStack(ro, nondetChoice(4)), "p2")
	case 1:
		parent = Or().Push("p0", And().Push(ro), "p2")
	case 3: // in the first slot, a needless envelope further on
		parent = Or().Push(ro, And().Push(Or().Push("x", "y")))
	case 4: // as the expression of a Condition in the first slot
		parent = Or().Push(Cond("kw", Eq, ro), And().Push(Or().Push("x", "y")))
	default:
		parent = Or().Push("p0", Cond("kw", Eq, ro), List().Push("sibling"))
	}
	vhAnyLimit = 6
	vhVarMax = 1
	before := vhSnapDeep(ro, 0)
	h := parent
	m.callS(&h)
	vhAssertNodeSame(before, vhSnapDeep(ro, 0), "read-only-descendant-unchanged")
	vhAssertUnlocked(ro, "descendant")
	vhAssertUnlocked(parent, "parent")
	verifReach("end")
}
