package stackage

// C05 — IsEqual accepts equal trees and rejects any difference.
// Two trees are built independently from one description; every scalar leaf
// exists twice (a_k in the first tree, b_k in the second) as solver
// variables, so "first elements equal, second elements different" is found
// by the solver rather than listed.

type vhPub struct {
	A int
	B string
}

type vhVals struct {
	v   []int
	pos int
}

func (x *vhVals) next() int {
	if x.pos < len(x.v) {
		x.pos++
		return x.v[x.pos-1]
	}
	x.pos++
	return 99
}

// vhLeafC05 builds leaf type t using the next scalar values of vs.
func vhLeafC05(t int, vs *vhVals) any {
	switch t {
	case 0:
		return vs.next()
	case 1:
		return "txt"
	case 2:
		return vs.next() > 0 // bool derived from a value
	case 3:
		v := vs.next()
		return &v
	case 4:
		v := vs.next()
		p := &v
		return &p
	case 5:
		return []int{vs.next(), vs.next(), vs.next()}
	case 6:
		return [3]int{vs.next(), vs.next(), 7}
	case 7:
		return map[string]int{"k1": vs.next(), "k2": vs.next()}
	case 8:
		return vhPub{vs.next(), "b"}
	case 9:
		return vhPrivStruct{vs.next(), vs.next()}
	case 10:
		return []int{vs.next(), vs.next()}
	case 11:
		return nil
	case 12: // slice with spare capacity
		sl := make([]int, 0, 4)
		return append(sl, vs.next(), vs.next())
	case 13: // struct whose interface-typed field holds a slice
		return vhIfaceStruct{A: []int{vs.next(), vs.next()}, N: vs.next()}
	case 14: // slice with spare capacity, one element longer
		sl := make([]int, 0, 4)
		return append(sl, vs.next(), vs.next(), vs.next())
	}
	return "other"
}

type vhIfaceStruct struct {
	A any
	N int
}

// vhBuildC05 builds a tree from digits; mut (applied only when side==1):
// 0 none, 1 swap the first two elements of the root, 2 one element more,
// 3 one element fewer, 4 different root kind, 5 different capacity,
// 6 both capped (same capacity) and one element fewer, 7 both capped and
// equal (capacity is applied to both sides for 6 and 7).
func vhBuildC05(g *vhDigits, depth int, vs *vhVals, mut int) Stack {
	return vhBuildC05x(g, depth, vs, mut, false)
}

func vhBuildC05x(g *vhDigits, depth int, vs *vhVals, mut int, capBoth bool) Stack {
	kind := g.next(4)
	if mut == 4 {
		kind = (kind + 1) % 4
	}
	var s Stack
	capArg := 0
	if mut == 5 || capBoth {
		capArg = 9
	}
	switch kind {
	case 0:
		s = And(capArg)
	case 1:
		s = Or(capArg)
	case 2:
		s = List(capArg)
	default:
		s = Basic(capArg)
	}
	// display and addressing options and the operator symbol are part of
	// neither tree's identity; both sides carry the same ones
	if cfg, _ := s.config(); vhC05Opts {
		cfg.opt = vhC05Opt
		if kind != 2 && vhC05Sym != "" {
			cfg.sym = vhC05Sym
		}
	}
	w := 1 + g.next(3)
	var elems []any
	for i := 0; i < w; i++ {
		t := g.next(19)
		if t >= 16 {
			t = 12 + (t - 16) // leaf types 12..14
			elems = append(elems, vhLeafC05(t, vs))
			continue
		}
		switch {
		case t == 12 && depth > 1:
			elems = append(elems, vhBuildC05(g, depth-1, vs, 0))
		case t == 13:
			code := 1 + g.next(6)
			elems = append(elems, Cond("kw", ComparisonOperator(code), vhLeafC05(g.next(11), vs)))
		case t == 14 && depth > 1:
			elems = append(elems, Cond("ks", Eq, vhBuildC05(g, depth-1, vs, 0)))
		default:
			elems = append(elems, vhLeafC05(t%12, vs))
		}
	}
	switch mut {
	case 1:
		if len(elems) >= 2 {
			elems[0], elems[1] = elems[1], elems[0]
		}
	case 2:
		elems = append(elems, "extra")
	case 3, 6:
		elems = elems[:len(elems)-1]
	}
	for _, e := range elems {
		*s.stack = append(*s.stack, e)
	}
	return s
}

var (
	vhC05Opts bool
	vhC05Opt  cfgFlag
	vhC05Sym  string
)

// vhRefEqual is the reference comparison over the harness's type universe.
func vhRefEqual(x, y any) bool {
	// pointers are flattened regardless of depth before comparing (documented)
	x, y = vhDeref(x), vhDeref(y)
	if x == nil || y == nil {
		return x == nil && y == nil
	}
	if sx, ok := vhStackOf(x); ok {
		sy, ok2 := vhStackOf(y)
		if !ok2 || sx.stackType() != sy.stackType() || sx.Cap() != sy.Cap() || sx.Len() != sy.Len() {
			return false
		}
		for i := 1; i < len(*sx.stack); i++ {
			if !vhRefEqual((*sx.stack)[i], (*sy.stack)[i]) {
				return false
			}
		}
		return true
	}
	if cx, ok := vhCondOf(x); ok {
		cy, ok2 := vhCondOf(y)
		ox, oy := cx.Operator(), cy.Operator()
		if !ok2 || cx.Keyword() != cy.Keyword() || (ox == nil) != (oy == nil) {
			return false
		}
		if ox != nil && (ox.String() != oy.String() || ox.Context() != oy.Context()) {
			return false
		}
		return vhRefEqual(cx.Expression(), cy.Expression())
	}
	switch a := x.(type) {
	case int:
		b, ok := y.(int)
		return ok && a == b
	case string:
		b, ok := y.(string)
		return ok && a == b
	case bool:
		b, ok := y.(bool)
		return ok && a == b
	case []int:
		b, ok := y.([]int)
		if !ok || len(a) != len(b) || cap(a) != cap(b) {
			return false
		}
		for i := range a {
			if a[i] != b[i] {
				return false
			}
		}
		return true
	case map[string]int:
		b, ok := y.(map[string]int)
		if !ok || len(a) != len(b) {
			return false
		}
		for _, k := range []string{"k1", "k2", "k3"} {
			va, ina := a[k]
			vb, inb := b[k]
			if ina != inb || va != vb {
				return false
			}
		}
		return true
	case vhPub:
		b, ok := y.(vhPub)
		return ok && a.A == b.A && a.B == b.B
	case vhPrivStruct:
		b, ok := y.(vhPrivStruct)
		return ok && a.A == b.A // unexported fields are skipped
	case vhIfaceStruct:
		b, ok := y.(vhIfaceStruct)
		return ok && a.N == b.N && vhRefEqual(a.A, b.A)
	}
	return false
}

// p: depth, nvals, mut, digits...
func VH_C05(p []int) {
	nv := p[1]
	va := make([]int, nv)
	vb := make([]int, nv)
	for k := 0; k < nv; k++ {
		va[k] = nondetInt()
		vb[k] = nondetInt()
	}
	capBoth := p[2] >= 6
	vhC05Opts, vhC05Opt, vhC05Sym = true, cfgFlag(nondetUint16())&vhOptMask, []string{"", "+"}[nondetChoice(2)]
	x := vhBuildC05x(&vhDigits{d: p[3:]}, p[0], &vhVals{v: va}, 0, capBoth)
	y := vhBuildC05x(&vhDigits{d: p[3:]}, p[0], &vhVals{v: vb}, p[2], capBoth)
	want := vhRefEqual(x, y)
	e1 := x.IsEqual(y)
	e2 := y.IsEqual(x)
	verifObserve("eq", e1 == nil)
	verifAssert((e1 == nil) == want, "verdict")
	verifAssert((e2 == nil) == want, "verdict-reverse")
	verifAssert((e1 == nil) == (e2 == nil), "symmetric")
	// a tree always equals an independently rebuilt copy of itself
	z := vhBuildC05x(&vhDigits{d: p[3:]}, p[0], &vhVals{v: va}, 0, capBoth)
	verifAssert(x.IsEqual(z) == nil, "equal-to-rebuilt-copy")
	verifAssert(x.IsEqual(x) == nil, "equal-to-itself")
	verifReach("end")
}

// Condition.IsEqual directly. p: leaf type, mut (0 none, 1 keyword, 2 operator,
// 3 expression type, 4 same operator text but another context, 5 no operator on
// either side, 6 no operator on one side)
func VH_C05_Cond(p []int) {
	va := []int{nondetInt(), nondetInt(), nondetInt()}
	vb := []int{nondetInt(), nondetInt(), nondetInt()}
	ca, cb := nondetUint8(), nondetUint8()
	verifAssume(ca >= 1 && ca <= 6)
	verifAssume(cb >= 1 && cb <= 6)
	kw2 := "kw"
	if p[1] == 1 {
		kw2 = "kx"
	}
	t2 := p[0]
	if p[1] == 3 {
		t2 = (p[0] + 1) % 11
	}
	var opx, opy Operator = ComparisonOperator(ca), ComparisonOperator(cb)
	if p[1] == 4 {
		opx, opy = Eq, vhUserOp{"=", "assignment"}
	}
	if p[1] == 5 {
		opx, opy = nil, nil // incomplete on both sides: the expressions still decide
	}
	if p[1] == 6 {
		opx, opy = nil, ComparisonOperator(cb)
	}
	x := Cond("kw", opx, vhLeafC05(p[0], &vhVals{v: va}))
	y := Cond(kw2, opy, vhLeafC05(t2, &vhVals{v: vb}))
	want := vhRefEqual(x, y)
	e1, e2 := x.IsEqual(y), y.IsEqual(x)
	verifAssert((e1 == nil) == want, "verdict")
	verifAssert((e2 == nil) == want, "verdict-reverse")
	verifReach("end")
}

func vhDeref(x any) any {
	switch p := x.(type) {
	case [3]int:
		// slices and arrays are not distinguished (documented)
		return []int{p[0], p[1], p[2]}
	case *int:
		if p != nil {
			return *p
		}
	case **int:
		if p != nil && *p != nil {
			return **p
		}
	}
	return x
}

// Two slice leaves with the same spare capacity but different lengths, whose
// common prefix is equal whenever the solver likes.
func VH_C05_SliceLen(p []int) {
	a0, a1, a2 := nondetInt(), nondetInt(), nondetInt()
	b0, b1 := nondetInt(), nondetInt()
	x := List().Push(append(make([]int, 0, 4), a0, a1, a2))
	y := List().Push(append(make([]int, 0, 4), b0, b1))
	verifAssert(x.IsEqual(y) != nil, "longer-vs-shorter")
	verifAssert(y.IsEqual(x) != nil, "shorter-vs-longer")
	z := List().Push(append(make([]int, 0, 4), b0, b1))
	verifAssert(y.IsEqual(z) == nil, "same")
	verifReach("end")
}
