package stackage

// C16 — Marshal accepts or rejects any input without panicking.

const vhMarshalKinds = 27

// vhMarshalEntry returns entry kind sel; label reports the stack kind a
// string entry names when used as a label ("" if none), isStr whether it is a
// string at all.
func vhMarshalEntry(sel int) (v any, label string, isStr bool) {
	switch sel {
	case 0:
		return "AND", "AND", true
	case 1:
		return "and", "AND", true
	case 2:
		return "Or", "OR", true
	case 3:
		return "NOT", "NOT", true
	case 4:
		return "list", "LIST", true
	case 5:
		return "BASIC", "BASIC", true
	case 6:
		return "CONDITION", "CONDITION", true
	case 7:
		return "condition", "CONDITION", true
	case 8:
		return "junk", "", true
	case 9:
		return 5, "", false
	case 10:
		return nil, "", false
	case 11:
		var p *int
		return p, "", false
	case 12:
		return ComparisonOperator(nondetUint8()), "", false
	case 13:
		return vhUserOp{"~=", "approx"}, "", false
	case 14:
		return vhUserOp{"", ""}, "", false
	case 15:
		return Or().Push("ready"), "", false
	case 16:
		return Cond("rk", Eq, "rv"), "", false
	case 17:
		return "", "", true
	case 18: // typed nil pointers whose types carry String methods
		var p *Stack
		return p, "", false
	case 19:
		var p *Condition
		return p, "", false
	case 20:
		var p *ComparisonOperator
		return p, "", false
	case 21:
		var p *vhUserOp
		return p, "", false
	case 22: // nested input that decodes to a Stack / a Condition
		return []any{"and", "n1", "n2"}, "", false
	case 23:
		return []any{"CONDITION", "nk", Ne, "nv"}, "", false
	case 24: // nested rows that cannot be decoded and hold nil values
		return []any{"condition", nil, nil}, "", false
	case 25:
		var np *int
		return []any{nil, np, "tail"}, "", false
	}
	return 2.5, "", false
}

// vhEntryMatch reports whether the stored element el can stem from input
// entry e: the value itself, or what a nested []any decodes to.
func vhEntryMatch(el, e any) bool {
	if sl, ok := e.([]any); ok {
		if raw, ok := el.([]any); ok {
			return len(raw) == len(sl) && len(sl) > 0 && &raw[0] == &sl[0]
		}
		if len(sl) > 0 {
			if lab, _ := sl[0].(string); vhEqFold(lab, "CONDITION") {
				_, isC := vhCondOf(el)
				return isC
			}
		}
		_, isS := vhStackOf(el)
		return isS
	}
	switch x := e.(type) {
	case nil:
		return el == nil
	case string:
		y, ok := el.(string)
		return ok && x == y
	case int:
		y, ok := el.(int)
		return ok && x == y
	case float64:
		y, ok := el.(float64)
		return ok && x == y
	case ComparisonOperator:
		y, ok := el.(ComparisonOperator)
		return ok && x == y
	case vhUserOp:
		y, ok := el.(vhUserOp)
		return ok && x == y
	case *int:
		y, ok := el.(*int)
		return ok && x == y
	case *Stack:
		y, ok := el.(*Stack)
		return ok && x == y
	case *Condition:
		y, ok := el.(*Condition)
		return ok && x == y
	case *ComparisonOperator:
		y, ok := el.(*ComparisonOperator)
		return ok && x == y
	case *vhUserOp:
		y, ok := el.(*vhUserOp)
		return ok && x == y
	}
	return vhSameElem(el, e)
}

// vhAssertFromInput: every stored element stems from an input entry, in the
// input's order (nothing fabricated, duplicated or moved).
func vhAssertFromInput(s Stack, in []any, id string) {
	st := *s.stack
	pos := 0
	for i := 1; i < len(st); i++ {
		found := false
		for pos < len(in) && !found {
			found = vhEntryMatch(st[i], in[pos])
			pos++
		}
		verifAssert(found, id)
	}
}

// vhAfterMarshal checks the "error or usable stack" disjunction.
func vhAfterMarshal(s *Stack, err error, id string) {
	if err != nil {
		return
	}
	verifAssert(s.IsInit(), id+"/no-error-means-initialised")
	if !s.IsInit() {
		return
	}
	_ = s.String()
	_, _ = s.Unmarshal()
	verifAssert(s.IsEqual(*s) == nil, id+"/equal-to-itself")
	verifAssert(s.Kind() != badStack, id+"/kind")
}

// p: n entries, spread (1: Marshal(in...), 0: Marshal(in)), receiver (0 zero, 1
// initialised, 2 initialised with mutex after installing and removing a marshaler)
func VH_C16_Flat(p []int) {
	n := p[0]
	in := make([]any, n)
	label, firstIsStr := "", false
	for k := range in {
		v, l, isStr := vhMarshalEntry(nondetChoice(vhMarshalKinds))
		in[k] = v
		if k == 0 {
			label, firstIsStr = l, isStr
		}
	}
	var s Stack
	before := 0
	capped := false
	if p[2] == 1 {
		pre := vhArbitraryStack(1, 1, false, nnest, 2, 1)
		s = pre.s
		before = 1
		capped = pre.cfg.cap != 0 && pre.cfg.cap == 2
	}
	if p[2] == 2 {
		// an initialised, mutex-enabled receiver on which a custom marshaler
		// was installed and removed again (both documented forms)
		s = Or().Push("first").SetMutex()
		s.SetMarshaler(func(...any) error { return errorf("custom") })
		if nondetChoice(2) == 0 {
			s.SetMarshaler()
		} else {
			s.SetMarshaler(nil)
		}
		before = 1
	}
	var err error
	if p[1] == 1 {
		err = s.Marshal(in...)
	} else {
		err = s.Marshal(in)
	}
	verifObserve("err", err != nil)
	if n == 0 && p[1] == 1 {
		verifAssert(err != nil, "empty-input-is-an-error")
	}
	vhAfterMarshal(&s, err, "after")
	if s.IsInit() && p[2] == 0 {
		// the same input decoded a second time gives an equal, distinct stack
		var twin Stack
		var err2 error
		if p[1] == 1 {
			err2 = twin.Marshal(in...)
		} else {
			err2 = twin.Marshal(in)
		}
		if twin.IsInit() {
			e1, e2 := s.IsEqual(twin), twin.IsEqual(s)
			verifAssert((e1 == nil) == (e2 == nil), "twin-verdict-symmetric")
			_ = err2
		}
	}
	if err == nil && s.IsInit() && p[2] == 0 {
		switch label {
		case "AND", "OR", "NOT", "LIST", "BASIC":
			verifAssert(s.Kind() == label, "label-honoured-case-insensitively")
			verifAssert(s.Len() <= n-1, "label-not-an-element")
			vhAssertFromInput(s, in[1:], "elements-stem-from-entries-in-order")
		case "":
			if firstIsStr && n > 0 {
				verifAssert(s.Kind() == "BASIC", "unknown-label-yields-basic")
				verifAssert(s.Len() == n, "unknown-label-keeps-all-entries")
				if s.Len() == n {
					for k := range in {
						verifAssert(vhEntryMatch((*s.stack)[k+1], in[k]), "unknown-label-entry-in-place")
					}
				}
			}
		}
	}
	if p[2] >= 1 {
		if err == nil && !capped {
			verifAssert(s.Len() == before+1 || s.Len() == before, "initialised-receiver-gains-at-most-one")
		}
		if capped {
			verifAssert(s.Len() == before, "full-receiver-unchanged")
		}
	}
	if err == nil && s.IsInit() && p[2] != 1 {
		// the receiver is an ordinary stack now: a further Marshal adds its
		// decoded Stack as one more element
		l := s.Len()
		err2 := s.Marshal([]any{"AND", "again"})
		verifAssert(err2 == nil, "second-marshal-error")
		verifAssert(s.Len() == l+1, "second-marshal-gains-one")
		if cfg, _ := s.config(); cfg != nil && cfg.mtx != nil {
			free := cfg.mtx.TryLock()
			verifAssert(free, "mutex-released")
			if free {
				cfg.mtx.Unlock()
			}
		}
	}
	verifReach("end")
}

// vhRowKinds: entry kinds offered inside CONDITION rows.
var vhRowKinds = []int{8, 17, 10, 12, 15, 20, 14, 13, 16, 11, 21, 9}

// p: fields after the label (0..5), nested (0: the row is the whole input,
// 1: the row is an element of an AND stack), label casing (0 upper, 1 lower),
// number of entry kinds tried per field
func VH_C16_CondRow(p []int) {
	row := []any{"CONDITION"}
	if p[2] == 1 {
		row[0] = "condition"
	}
	for k := 0; k < p[0]; k++ {
		sel := vhRowKinds[nondetChoice(p[3])]
		if k == 3-1 {
			// expression position: also nested envelopes, decodable or not
			switch nondetChoice(7) {
			case 1:
				row = append(row, []any{"OR", "x", "y"})
				continue
			case 2:
				row = append(row, []any{})
				continue
			case 3:
				row = append(row, []any{[]any{}})
				continue
			case 4:
				row = append(row, []any{5, 6})
				continue
			case 5:
				row = append(row, []any{"CONDITION", "short"})
				continue
			case 6:
				row = append(row, []any{[]any{7, "x"}})
				continue
			}
		}
		v, _, _ := vhMarshalEntry(sel)
		row = append(row, v)
	}
	var s Stack
	var err error
	if p[1] == 0 {
		err = s.Marshal(row...)
	} else {
		err = s.Marshal("AND", "lead", row)
	}
	verifObserve("err", err != nil)
	vhAfterMarshal(&s, err, "after")
	if p[1] == 1 && err == nil && s.IsInit() {
		verifAssert(s.Kind() == "AND", "outer-kind")
		verifAssert(s.Len() == 2, "outer-len")
		// nothing undecoded is left behind without an error
		el, _ := s.Index(1)
		_, raw := el.([]any)
		verifAssert(!raw, "no-raw-row-left-without-error")
	}
	// a sibling decoded from the same row with another value in the operator
	// position (a real operator, a non-operator, nothing): whatever Marshal
	// accepted compares with it, either way round, without panicking
	if len(row) > 2 && err == nil && s.IsInit() {
		row2 := append([]any{}, row...)
		row2[2] = []any{Eq, "=", nil}[nondetChoice(3)]
		var sib Stack
		var errSib error
		if p[1] == 0 {
			errSib = sib.Marshal(row2...)
		} else {
			errSib = sib.Marshal("AND", "lead", row2)
		}
		if errSib == nil && sib.IsInit() {
			e1, e2 := s.IsEqual(sib), sib.IsEqual(s)
			verifAssert((e1 == nil) == (e2 == nil), "sibling-verdict-symmetric")
		}
	}
	// an initialised receiver gains exactly one element when no error is reported
	r2 := And().Push("have")
	if p[1] == 0 {
		if err2 := r2.Marshal(row...); err2 == nil {
			verifAssert(r2.Len() == 2, "initialised-receiver-gains-one")
		} else {
			verifAssert(r2.Len() == 1, "error-leaves-receiver-alone")
		}
	}
	verifReach("end")
}

// vhJunk builds a nested []any from digits: empty and singleton envelopes,
// labels and junk at every level.
func vhJunk(g *vhDigits, depth int) []any {
	n := g.next(4)
	out := make([]any, 0, n)
	for i := 0; i < n; i++ {
		if depth > 0 && g.next(3) == 0 {
			out = append(out, vhJunk(g, depth-1))
			continue
		}
		v, _, _ := vhMarshalEntry(g.next(vhMarshalKinds))
		out = append(out, v)
	}
	return out
}

// p: depth, spread, digits...
func VH_C16_Junk(p []int) {
	g := &vhDigits{d: p[2:]}
	in := vhJunk(g, p[0])
	var s Stack
	var err error
	if p[1] == 1 {
		err = s.Marshal(in...)
	} else {
		err = s.Marshal(in)
	}
	verifObserve("err", err != nil)
	vhAfterMarshal(&s, err, "after")
	verifReach("end")
}

// Envelopes: [[]], [[[]]], [[x]], [["AND","a"]], ...
// p: levels of wrapping, inner (0 empty, 1 junk leaf, 2 AND stack, 3 CONDITION row)
func VH_C16_Envelope(p []int) {
	var inner []any
	switch p[1] {
	case 1:
		inner = []any{7}
	case 2:
		inner = []any{"and", "a", "b"}
	case 3:
		inner = []any{"CONDITION", "kw", Eq, "v"}
	default:
		inner = []any{}
	}
	in := inner
	for k := 0; k < p[0]; k++ {
		in = []any{in}
	}
	var s Stack
	err := s.Marshal(in...)
	verifObserve("err", err != nil)
	vhAfterMarshal(&s, err, "after")
	if p[1] == 2 && err == nil {
		verifAssert(s.Kind() == "AND" && s.Len() == 2, "enveloped-stack-decoded")
	}
	verifReach("end")
}
