package stackage

// C02 — String() renders the expression tree by one fixed compositional grammar.
// The oracle is an independent renderer working on a description of the tree
// (vhR02): it calls no library function, has its own case folding and its own
// blank-condensing pass.  Where the statement is silent about where blanks go,
// the grammar is the one pinned by the repository's tests: text leaves are
// blank-padded unless no-padding is set, renderings of nested Stacks and
// Conditions are inserted as they are, word operators are always set off by
// blanks, symbols and delimiters only under padding.

type vhR02 struct {
	kind    stackType
	paren   bool
	fold    bool
	nspad   bool
	lonce   bool
	sym     string
	delim   string
	enc     [][]string
	elems   []*vhE02
	invalid bool
}

type vhE02 struct {
	text  string // leaf text (already converted from int/bool)
	isTxt bool
	cond  *vhC02
	sub   *vhR02
}

type vhC02 struct {
	kw, op, val string
	paren, nspad bool
	enc          [][]string
	valid        bool
	sub          *vhR02 // the expression is a Stack: its rendering is the value
}

func vhCondense(s string) string {
	out := make([]byte, 0, len(s))
	blank := true // drops leading blanks
	for i := 0; i < len(s); i++ {
		c := s[i]
		if c == ' ' || c == '\t' {
			if !blank {
				out = append(out, ' ')
				blank = true
			}
			continue
		}
		out = append(out, c)
		blank = false
	}
	if len(out) > 0 && out[len(out)-1] == ' ' {
		out = out[:len(out)-1]
	}
	return string(out)
}

func vhEncap(enc [][]string, v string) string {
	for i := len(enc) - 1; i >= 0; i-- {
		if len(enc[i]) == 1 {
			v = enc[i][0] + v + enc[i][0]
		} else {
			v = enc[i][0] + v + enc[i][1]
		}
	}
	return v
}

func vhWord(k stackType, fold bool) string {
	switch k {
	case and:
		if fold {
			return "and"
		}
		return "AND"
	case or:
		if fold {
			return "or"
		}
		return "OR"
	case not:
		if fold {
			return "not"
		}
		return "NOT"
	}
	return ""
}

func vhJoin(parts []string, sep string) string {
	out := ""
	for i, p := range parts {
		if i > 0 {
			out += sep
		}
		out += p
	}
	return out
}

func vhRenderCond(c *vhC02) string {
	if !c.valid {
		return ""
	}
	pad := " "
	if c.nspad {
		pad = ""
	}
	val := c.val
	if c.sub != nil {
		val = vhRender(c.sub)
	}
	s := c.kw + pad + c.op + pad + vhEncap(c.enc, val)
	if c.paren {
		s = "(" + pad + s + pad + ")"
	}
	return s
}

func vhRender(n *vhR02) string {
	if n.kind == basic || n.invalid {
		return ""
	}
	padded := !n.nspad
	var parts []string
	for _, e := range n.elems {
		switch {
		case e.isTxt:
			t := vhEncap(n.enc, e.text)
			if t == "" {
				continue
			}
			if padded {
				t = " " + t + " "
			}
			parts = append(parts, t)
		case e.cond != nil:
			if t := vhRenderCond(e.cond); t != "" {
				parts = append(parts, t)
			}
		case e.sub != nil:
			t := vhRender(e.sub)
			if t == "" {
				continue // nothing contributed: no dangling operator either
			}
			if e.sub.kind == not && e.sub.sym == "" {
				t = vhWord(not, e.sub.fold) + " " + t
			}
			parts = append(parts, t)
		}
	}
	op := n.sym
	if op == "" {
		op = vhWord(n.kind, n.fold)
	}
	body := ""
	switch {
	case n.lonce:
		// an empty stack contributes nothing: no operator without operands
		if n.kind != list && len(parts) > 0 {
			if n.sym == "" && padded {
				body = " " + op + " "
			} else {
				body = op
			}
		}
		body += vhJoin(parts, "")
	case n.kind == list:
		sep := n.delim
		if sep == "" && padded {
			sep = " "
		}
		body = vhJoin(parts, sep)
	case n.sym != "":
		sep := op
		if padded {
			sep = " " + op + " "
		}
		body = vhJoin(parts, sep)
	default:
		body = vhJoin(parts, " "+op+" ")
	}
	if n.paren {
		if padded {
			body = "( " + body + " )"
		} else {
			body = "(" + body + ")"
		}
	}
	return vhCondense(body)
}

// vhFixedTexts: concrete leaf texts incl. multi-byte UTF-8, embedded blanks
// and tabs, and the empty string.
var vhFixedTexts = []string{"x", "é", "a b", "日本", "", "t\tq", "ü y", "Z"}

type vhB02 struct {
	g      *vhDigits
	symTxt int // remaining symbolic text leaves
	symOpt int // remaining nodes with symbolic option bits
}

// vhBuild02 builds the real Stack and its description together.
func (b *vhB02) build(depth, maxw int) (Stack, *vhR02) {
	g := b.g
	var s Stack
	switch g.next(6) {
	case 0, 1:
		s = And()
	case 2:
		s = Or()
	case 3:
		s = Not()
	case 4:
		s = List()
	default:
		s = Basic()
	}
	cfg, _ := s.config()
	d := &vhR02{kind: cfg.typ}
	// the option word is installed when the node is complete (read-only and
	// no-nesting would otherwise refuse the setters and pushes that build it)
	var opt cfgFlag
	if b.symOpt > 0 {
		b.symOpt--
		// the four rendering options and the four that must not matter to it
		opt = cfgFlag(nondetUint16()) & vhOptMask
	} else {
		v := g.next(16)
		opt = cfgFlag(v) & (parens | cfold | nspad | lonce)
		if v%3 == 0 {
			opt |= ronly
		}
		if v%5 == 1 {
			opt |= nnest | negidx
		}
		if v%7 == 2 {
			opt |= fwdidx
		}
	}
	if cfg.typ == list {
		// lead-once on a LIST is outside the statement
		opt &^= lonce
	}
	d.paren, d.fold, d.nspad, d.lonce = opt&parens != 0, opt&cfold != 0, opt&nspad != 0, opt&lonce != 0
	switch g.next(4) {
	case 1:
		if cfg.typ == list {
			s.SetDelimiter(",")
			d.delim = ","
		} else {
			s.SetSymbol("&")
			d.sym = "&"
		}
	case 2:
		if cfg.typ == list {
			s.SetDelimiter("::")
			d.delim = "::"
		} else {
			s.SetSymbol("&&")
			d.sym = "&&"
		}
	}
	switch g.next(4) {
	case 1:
		s.SetEncap(`"`)
		d.enc = [][]string{{`"`}}
	case 2:
		s.SetEncap([]string{"<", ">"})
		d.enc = [][]string{{"<", ">"}}
	case 3:
		s.SetEncap(`'`, []string{"[", "]"})
		d.enc = [][]string{{`'`}, {"[", "]"}}
	}
	w := g.next(maxw + 1)
	for i := 0; i < w; i++ {
		kinds := 6
		if depth <= 1 {
			kinds = 4
		}
		switch g.next(kinds) {
		case 0: // text leaf
			var t string
			if b.symTxt > 0 {
				b.symTxt--
				t = verifString(g.next(3)) // any bytes: blank, tab, NUL, >= 0x80 ...
			} else {
				t = vhFixedTexts[g.next(len(vhFixedTexts))]
			}
			s.Push(t)
			d.elems = append(d.elems, &vhE02{text: t, isTxt: true})
		case 1: // numeric leaf of every primitive family, expected text written by hand
			k := g.next(len(vhNumLeaves))
			s.Push(vhNumLeaves[k].v)
			d.elems = append(d.elems, &vhE02{text: vhNumLeaves[k].t, isTxt: true})
		case 2: // bool leaf
			v := g.next(2) == 1
			s.Push(v)
			t := "false"
			if v {
				t = "true"
			}
			d.elems = append(d.elems, &vhE02{text: t, isTxt: true})
		case 3: // condition
			val := vhFixedTexts[g.next(len(vhFixedTexts))]
			c := Cond("kw", Ge, val)
			cd := &vhC02{kw: "kw", op: ">=", val: val, valid: val != ""}
			if depth > 1 && g.next(3) == 0 {
				// the expression is a Stack: rendered as it renders itself,
				// inside the Condition's own encapsulation
				sub, sd := b.build(depth-1, maxw)
				c = Cond("kw", Ge, sub)
				cd = &vhC02{kw: "kw", op: ">=", valid: true, sub: sd}
			}
			if g.next(2) == 1 {
				c.SetNoPadding(true)
				cd.nspad = true
			}
			if g.next(2) == 1 {
				c.SetParen(true)
				cd.paren = true
			}
			if g.next(2) == 1 {
				c.SetEncap(`"`)
				cd.enc = [][]string{{`"`}}
			}
			*s.stack = append(*s.stack, c)
			d.elems = append(d.elems, &vhE02{cond: cd})
		case 4, 5: // nested stack
			sub, sd := b.build(depth-1, maxw)
			*s.stack = append(*s.stack, sub)
			d.elems = append(d.elems, &vhE02{sub: sd})
		}
	}
	if d.sym == "" && cfg.typ != list && g.next(5) == 0 {
		// a symbol that was set once and taken back again (zero-argument form)
		hold := cfg.opt
		cfg.opt = 0
		s.SetSymbol("zz")
		s.SetSymbol()
		cfg.opt = hold
	}
	cfg.opt = opt
	return s, d
}

var vhNumLeaves = []struct {
	v any
	t string
}{
	{0, "0"}, {7, "7"}, {-3, "-3"}, {42, "42"},
	{float32(0.1), "0.1"}, {float32(16.8), "16.8"}, {float64(3.6663), "3.6663"}, {float64(1e21), "1e+21"},
	{uint8(200), "200"}, {int64(-9007199254740993), "-9007199254740993"}, {uint64(18446744073709551615), "18446744073709551615"},
	{int8(-128), "-128"}, {complex64(complex(1.5, -2)), "(1.5-2i)"}, {float32(1.1), "1.1"}, {uint16(65535), "65535"}, {float64(0.1), "0.1"},
}

func indexOfInt(v int) int {
	switch v {
	case 0:
		return 0
	case 7:
		return 1
	case -3:
		return 2
	}
	return 3
}

// p: depth, maxw, symbolic text leaves, nodes with symbolic options, digits...
func VH_C02(p []int) {
	b := &vhB02{g: &vhDigits{d: p[4:]}, symTxt: p[2], symOpt: p[3]}
	s, d := b.build(p[0], p[1])
	before := vhSnapDeep(s, 0)
	got := s.String()
	want := vhRender(d)
	verifObserve("got", got)
	verifObserve("want", want)
	verifAssert(len(got) == len(want), "length")
	verifAssert(got == want, "grammar")
	verifAssert(s.String() == got, "repeatable")
	vhAssertNodeSame(before, vhSnapDeep(s, 0), "unchanged")
	verifReach("end")
}

// Hand-built trees for the cases the statement names explicitly.
// p: which
func VH_C02_Named(p []int) {
	verifCase("named" + string(rune('a'+p[0])))
	var s Stack
	want := ""
	switch p[0] {
	case 0: // an empty nested NOT leaves no dangling operator
		s = And().Push("a", Not())
		want = "a"
	case 1: // nested NOT is prefixed by its word in its own case
		s = And().Push(Not().SetFold(true).Push("x"), "b")
		want = "not x AND b"
	case 2: // LIST without delimiter: a single blank, also between Conditions
		s = List().Push(Cond("k", Eq, "v"), Cond("k2", Ne, "v2"))
		want = "k = v k2 != v2"
	case 3: // verbatim Unicode through two nesting levels
		s = And().Push(Or().Push(List().Push("é", "日本")), "ü")
		want = "é 日本 AND ü"
	case 4: // BASIC stacks contribute nothing
		s = And().Push("a", Basic().Push("z"), "b")
		want = "a AND b"
	case 5: // empty parenthetical nested stack still shows its parentheses
		s = Or().Push("a", And().SetParen(true))
		want = "a OR ( )"
	case 6: // invalid Condition contributes nothing
		var c Condition
		c.Init()
		c.SetKeyword("only")
		s = And().Push("a", c, "b")
		want = "a AND b"
	case 7: // empty non-parenthetical nested stack between elements
		s = Or().Push("a", And(), "b")
		want = "a OR b"
	case 8: // lead-once with symbol and no padding (LDAP style)
		s = And().SetSymbol("&").SetLeadOnce(true).SetNoPadding(true).SetParen(true).Push(
			Cond("a", Eq, "1").SetNoPadding(true).SetParen(true), Cond("b", Eq, "2").SetNoPadding(true).SetParen(true))
		want = "(&(a=1)(b=2))"
	case 9: // nested NOT that is itself empty inside a NOT
		s = Not().Push(Not(), "x")
		want = "x"
	case 10: // leading/trailing newline of a leaf is text, not a blank
		s = List().SetNoPadding(true).Push("\nx\n")
		want = "\nx\n"
	case 11: // what an earlier rendering saw is history: pairs taken back and
		// replaced by as many others (no rendering in between) are the ones used
		s = And().Push("a", "b")
		s.SetEncap(`"`)
		verifAssert(s.String() == `"a" AND "b"`, "named-case-first-render")
		s.SetEncap()
		s.SetEncap(`'`)
		want = `'a' AND 'b'`
	case 12: // the same one level down with a two-character pair, rendered through the parent
		inner := List().SetDelimiter(",").Push("x", "y z")
		inner.SetEncap([]string{"[", "]"})
		s = Or().Paren().Push("k", inner)
		verifAssert(s.String() == "( k OR [x] , [y z] )", "named-case-first-render")
		inner.SetEncap()
		inner.SetEncap([]string{"<", ">"})
		want = "( k OR <x> , <y z> )"
	}
	got := s.String()
	verifObserve("got", got)
	verifAssert(got == want, "named-case")
	verifReach("end")
}
