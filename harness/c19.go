package stackage

import "sync"

// C19 — Defrag removes every nil gap and nothing else.

// p: n, nesting (0 flat, 1 inside a Stack, 2 as a Condition's expression, 3 two
// levels down through a Condition, 4 nested and then SetNoNesting on the
// holder, 5 held as pointer to an alias),
// limitMode (0 no argument, 1 symbolic limit), index options (bit 0 negative,
// bit 1 forward indices)
func VH_C19(p []int) {
	n := p[0]
	s := List()
	cfg, _ := s.config()
	if nondetChoice(2) == 1 {
		cfg.mtx = &sync.Mutex{} // locking enabled: every Defrag must hand the lock back
	}
	optName := ""
	if len(p) > 3 {
		if p[3]&1 != 0 {
			cfg.opt |= negidx
			optName += "+neg"
		}
		if p[3]&2 != 0 {
			cfg.opt |= fwdidx
			optName += "+fwd"
		}
	}
	pattern := ""
	var want []any
	run, maxRun := 0, 0
	for i := 0; i < n; i++ {
		if nondetChoice(2) == 1 {
			*s.stack = append(*s.stack, nil)
			pattern += "."
			run++
			if run > maxRun {
				maxRun = run
			}
		} else {
			*s.stack = append(*s.stack, vhTokens[i])
			want = append(want, vhTokens[i])
			pattern += string(rune('a' + i))
			run = 0
		}
	}
	if pattern == "" {
		pattern = "empty"
	}
	// findings are keyed by pattern and by where the stack sits
	verifCase(pattern + []string{"", "@stack", "@cond", "@cond-stack", "@stack-then-no-nesting", "@alias"}[p[1]] + []string{"", ":limit"}[p[2]] + optName)
	hasNil := len(want) != n
	if hasNil && nondetChoice(2) == 1 {
		// an error some other method left on the stack itself: a Defrag that
		// succeeds leaves none behind (a stack without nil stays untouched,
		// its error included, so this is only set where there is a gap)
		cfg.err = errorf("left behind on the stack itself")
	}
	before := vhSnapDeep(s, 0)
	var outer Stack
	switch p[1] {
	case 0:
		outer = s
	case 1:
		outer = And().Push("x", s)
	case 2:
		outer = And().Push(Cond("kw", Eq, s))
	case 3: // two levels down, through a Condition's expression Stack
		outer = And().Push(Or().Push("d"), Cond("kw", Eq, Or().Push("e", s)))
	case 4: // nested first, nesting switched off afterwards (no effect on what is there)
		outer = And().Push("x", s)
		outer.SetNoNesting(true)
	case 5: // held as a pointer to an alias
		a := vhAliasStack(s)
		outer = Or().Push(&a, "y")
	}
	if p[1] != 0 && nondetChoice(2) == 1 {
		// the holder carries an error some earlier call left behind and
		// forward indices (so that its own, gap-free pass does not clear it):
		// what it holds is compacted all the same
		if ocfg, _ := outer.config(); ocfg != nil {
			ocfg.opt |= fwdidx
			ocfg.err = errorf("left behind by an earlier call")
		}
	}
	if p[2] == 0 {
		if nondetChoice(2) == 1 {
			outer.Defrag(0) // zero is no limit at all: the default applies
		} else {
			outer.Defrag()
		}
	} else {
		limit := nondetInt()
		// precondition of the statement: every nil run is shorter than the limit
		verifAssume(limit > maxRun)
		outer.Defrag(limit)
	}
	vhInv(s, cfg, "inv")
	if !hasNil {
		vhAssertNodeSame(before, vhSnapDeep(s, 0), "no-nil-stack-untouched")
	}
	ok := s.Len() == len(want)
	if ok {
		st := *s.stack
		for k := range want {
			if !vhSame(st[k+1], want[k]) {
				ok = false
			}
		}
	}
	verifAssert(ok, "compacted")
	verifAssert(s.Err() == nil, "err")
	if p[1] == 1 || p[1] == 4 || p[1] == 5 {
		verifAssert(outer.Len() == 2, "outer-untouched")
	}
	if cfg.mtx != nil {
		free := cfg.mtx.TryLock()
		verifAssert(free, "mutex-released")
		if free {
			cfg.mtx.Unlock()
			// and again, now that nothing is left to compact
			outer.Defrag()
			free = cfg.mtx.TryLock()
			verifAssert(free, "mutex-released-after-second-defrag")
			if free {
				cfg.mtx.Unlock()
			}
		}
	}
	verifReach("end")
}
