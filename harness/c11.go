package stackage

// C11 — queries never modify anything and may run concurrently.

// p: method index, variant — every exported Stack method NOT in mutators.txt
func VH_C11_Stack(p []int) {
	m := vhAutoStack[p[0]]
	verifCase(m.name)
	s, _ := vhRich(p[1], vhOptMask)
	vhAnyLimit = 12
	before := vhSnapDeep(s, 0)
	call := m.prepS()
	h := s
	var r1, r2 []any
	verifFreeze(s)
	r1 = vhQuery(func() []any { return call(&h) })
	verifThaw()
	after := vhSnapDeep(s, 0)
	verifAssert(h.stack == s.stack, "handle-unchanged")
	vhAssertNodeSame(before, after, "unchanged")
	vhAssertUnlocked(s, "after-query")
	// the same call repeated gives the same answer
	r2 = call(&h)
	verifAssert(len(r1) == len(r2), "repeat-arity")
	if len(r1) == len(r2) {
		for i := range r1 {
			if m.name != "Stack.Addr" {
				verifAssert(vhResultSame(r1[i], r2[i]), "repeat-same-answer")
			}
		}
	}
	// returned containers are the caller's: altering them changes nothing
	if m.name == "Stack.Unmarshal" && len(r1) > 0 {
		if sl, ok := r1[0].([]any); ok && len(sl) > 0 {
			for i := range sl {
				if inner, ok := sl[i].([]any); ok && len(inner) > 0 {
					inner[0] = "clobbered"
				}
				sl[i] = "clobbered"
			}
			vhAssertNodeSame(before, vhSnapDeep(s, 0), "unmarshal-result-is-fresh")
			r3 := call(&h)
			verifAssert(vhResultSame(r2[0], r3[0]), "unmarshal-unaffected-by-clobbering")
		}
	}
	verifReach("end")
}

// p: method index, variant — Condition queries
func VH_C11_Cond(p []int) {
	m := vhAutoCond[p[0]]
	verifCase(m.name)
	c := vhRichCond(p[1], vhOptMask)
	vhAnyLimit = 12
	before := vhSnapDeep(c, 0)
	call := m.prepC()
	h := c
	var r1, r2 []any
	verifFreeze(c)
	r1 = vhQuery(func() []any { return call(&h) })
	verifThaw()
	after := vhSnapDeep(c, 0)
	verifAssert(h.condition == c.condition, "handle-unchanged")
	vhAssertNodeSame(before, after, "unchanged")
	r2 = call(&h)
	verifAssert(len(r1) == len(r2), "repeat-arity")
	if len(r1) == len(r2) {
		for i := range r1 {
			if m.name != "Condition.Addr" {
				verifAssert(vhResultSame(r1[i], r2[i]), "repeat-same-answer")
			}
		}
	}
	if m.name == "Condition.Unmarshal" && len(r1) > 0 {
		if sl, ok := r1[0].([]any); ok {
			for i := range sl {
				sl[i] = "clobbered"
			}
			vhAssertNodeSame(before, vhSnapDeep(c, 0), "unmarshal-result-is-fresh")
		}
	}
	verifReach("end")
}

// p: method index — Auxiliary queries on a populated map
func VH_C11_Aux(p []int) {
	m := vhAutoAux[p[0]]
	verifCase(m.name)
	a := Auxiliary{"x": 1, "all": 2}
	call := m.prepA()
	verifFreeze(a)
	r1 := call(&a)
	verifThaw()
	verifAssert(len(a) == 2, "len-unchanged")
	v, ok := a["x"]
	verifAssert(ok && vhSame(v, 1), "content-unchanged")
	r2 := call(&a)
	for i := range r1 {
		verifAssert(vhResultSame(r1[i], r2[i]), "repeat-same-answer")
	}
	verifReach("end")
}

// The path handed to Traverse is the caller's: it is read, never written
// (relative indices included), so one path can serve many calls and callers.
// p: variant
func VH_C11_TraversePath(p []int) {
	s, cfg := vhRich(p[0], vhOptMask)
	cfg.opt |= negidx | fwdidx
	if ic, _ := vhStackOf((*s.stack)[1]); ic.stack != nil {
		if icfg, _ := ic.config(); icfg != nil {
			icfg.opt |= negidx | fwdidx
		}
	}
	a, b := nondetInt(), nondetInt()
	path := []int{a, b}
	verifFreeze(s)
	r1, ok1 := s.Traverse(path...)
	verifThaw()
	verifAssert(path[0] == a && path[1] == b, "path-unchanged")
	r2, ok2 := s.Traverse(path...)
	verifAssert(ok1 == ok2 && vhResultSame(r1, r2), "same-path-same-answer")
	verifReach("end")
}
