package stackage

// Shared harness helpers: symbolic pre-states satisfying the representation
// invariant Inv (DESIGN §3.11), the list model used as oracle, and content
// comparison through the public API.

import "sync"

// the eight settable option bits
const vhOptMask = parens | cfold | nspad | lonce | negidx | fwdidx | ronly | nnest

// vhValidKind constrains a symbolic stackType to the five stack kinds.
func vhAssumeStackKind(t stackType) {
	verifAssume(t >= and)
	verifAssume(t <= basic)
	verifAssume(t != cond)
}

// vhTokens are distinct element values used as stack content.
var vhTokens = []any{"e0", "e1", "e2", "e3", "e4", "e5", "e6", "e7", "e8", "e9", "e10", "e11"}

type vhPre struct {
	s     Stack
	cfg   *nodeConfig
	model []any // the user-visible content
	n     int
}

// vhArbitraryStack builds an arbitrary initialised Stack of user length n
// directly in memory: kind, option bits (masked by optMask), FIFO flag and the
// capacity field are solver variables; every slot is nil or a distinct token
// (fork) when nils is true; `slack` spare cells behind len hold stale values.
// capMode: 0 = no capacity, 1 = symbolic capacity field in [n+1, n+1+capSpan],
// 2 = either (fork).
func vhArbitraryStack(n, slack int, nils bool, optMask cfgFlag, capMode, capSpan int) vhPre {
	cfg := new(nodeConfig)
	cfg.log = newLogSystem(sLogDefault)
	cfg.log.lvl = logLevels(sLogLevelDefault)
	cfg.typ = stackType(nondetUint8())
	vhAssumeStackKind(cfg.typ)
	cfg.ord = nondetBool()
	cfg.opt = cfgFlag(nondetUint16()) & optMask
	withCap := false
	switch capMode {
	case 1:
		withCap = true
	case 2:
		withCap = nondetChoice(2) == 1
	}
	if withCap {
		c := nondetInt()
		verifAssume(c >= n+1)
		verifAssume(c >= 2)
		verifAssume(c <= n+1+capSpan)
		cfg.cap = c
	}
	switch vhPreMode {
	case 1:
		if nondetChoice(2) == 1 {
			// locking enabled: every lock taken must be released again (vhInv)
			cfg.mtx = &sync.Mutex{}
		}
	case 2:
		// ... and, third, a state some earlier calls left behind: an error on
		// record and a validity policy that currently rejects the instance.
		// Neither is any business of the content operations.
		switch nondetChoice(3) {
		case 1:
			cfg.mtx = &sync.Mutex{}
		case 2:
			cfg.mtx = &sync.Mutex{}
			cfg.err = errorf("left behind by an earlier call")
			cfg.vpf = func(...any) error { return errorf("content not acceptable") }
		}
	}
	st := make(stack, 1+n, 1+n+slack)
	st[0] = cfg
	model := make([]any, n)
	for i := 0; i < n; i++ {
		if nils && nondetChoice(2) == 1 {
			model[i] = nil
		} else {
			model[i] = vhTokens[i]
		}
		st[1+i] = model[i]
	}
	full := st[:cap(st)]
	for i := 1 + n; i < len(full); i++ {
		full[i] = "stale"
	}
	return vhPre{s: Stack{&st}, cfg: cfg, model: model, n: n}
}

// vhInv checks the representation invariant of an initialised stack whose
// configuration record is expected to be cfg.
func vhInv(s Stack, cfg *nodeConfig, id string) {
	verifAssert(s.stack != nil, id+"/nonnil")
	if s.stack == nil {
		return
	}
	st := *s.stack
	verifAssert(len(st) >= 1, id+"/len>=1")
	if len(st) < 1 {
		return
	}
	got, ok := st[0].(*nodeConfig)
	verifAssert(ok, id+"/slot0-is-config")
	verifAssert(got == cfg, id+"/slot0-same-config")
	if cfg.cap != 0 {
		verifAssert(len(st) <= cfg.cap, id+"/len<=cap")
	}
	verifAssert(s.IsInit(), id+"/IsInit")
	if cfg.mtx != nil {
		free := cfg.mtx.TryLock()
		verifAssert(free, id+"/mutex-released")
		if free {
			cfg.mtx.Unlock()
		}
	}
}

// vhPreMode: 0 plain pre-states; 1 with and without a mutex; 2 additionally
// with an error on record and a rejecting validity policy.
var vhPreMode = 1

// vhAssertUnlocked: no mutex anywhere in the tree x is left locked.
func vhAssertUnlocked(x any, id string) {
	vhUnlockedWalk(x, id, 0)
}

func vhUnlockedWalk(x any, id string, depth int) {
	if depth > 5 {
		return
	}
	if s, ok := vhStackOf(x); ok {
		if cfg, _ := s.config(); cfg != nil && cfg.mtx != nil {
			free := cfg.mtx.TryLock()
			verifAssert(free, id+"/mutex-released")
			if free {
				cfg.mtx.Unlock()
			}
		}
		for i := 1; i < len(*s.stack); i++ {
			vhUnlockedWalk((*s.stack)[i], id, depth+1)
		}
		return
	}
	if c, ok := vhCondOf(x); ok {
		if cfg := c.condition.cfg; cfg != nil && cfg.mtx != nil {
			free := cfg.mtx.TryLock()
			verifAssert(free, id+"/mutex-released")
			if free {
				cfg.mtx.Unlock()
			}
		}
		vhUnlockedWalk(c.condition.ex, id, depth+1)
	}
}

// vhSame compares two element values by identity of the tokens used in
// harnesses (strings, ints, nil).
func vhSame(a, b any) bool {
	if a == nil || b == nil {
		return a == nil && b == nil
	}
	switch x := a.(type) {
	case string:
		y, ok := b.(string)
		return ok && x == y
	case int:
		y, ok := b.(int)
		return ok && x == y
	case []string:
		y, ok := b.([]string)
		return ok && len(x) == len(y) && (len(x) == 0 || &x[0] == &y[0])
	case Stack: // zero values included (the converters refuse those)
		y, ok := b.(Stack)
		return ok && x.stack == y.stack
	case vhAliasStack:
		y, ok := b.(vhAliasStack)
		return ok && x.stack == y.stack
	case Condition:
		y, ok := b.(Condition)
		return ok && x.condition == y.condition
	case vhAliasCond:
		y, ok := b.(vhAliasCond)
		return ok && x.condition == y.condition
	case *Stack:
		y, ok := b.(*Stack)
		return ok && x == y
	case *Condition:
		y, ok := b.(*Condition)
		return ok && x == y
	case *vhAliasStack:
		y, ok := b.(*vhAliasStack)
		return ok && x == y
	}
	if sa, ok := vhStackOf(a); ok {
		sb, ok2 := vhStackOf(b)
		return ok2 && sa.stack == sb.stack
	}
	if ca, ok := vhCondOf(a); ok {
		cb, ok2 := vhCondOf(b)
		return ok2 && ca.condition == cb.condition
	}
	return false
}

// vhFormOf names the dynamic type of a tree element as far as harnesses
// produce them (0 = anything else).
func vhFormOf(x any) int {
	switch x.(type) {
	case nil:
		return 1
	case string:
		return 2
	case int:
		return 3
	case Stack:
		return 4
	case *Stack:
		return 5
	case vhAliasStack:
		return 6
	case *vhAliasStack:
		return 7
	case vhAliasStackS:
		return 8
	case Condition:
		return 9
	case *Condition:
		return 10
	case vhAliasCond:
		return 11
	case *vhAliasCond:
		return 12
	case vhAliasCondS:
		return 13
	case *vhAliasCondS:
		return 14
	}
	return 0
}

// vhAssertContent asserts that the stack's user-visible content is exactly
// model: Len, then every position read back through the raw slice (exact)
// and through Index (as far as Index can see it: nil slots read as failure).
func vhAssertContent(s Stack, model []any, id string) {
	verifAssert(s.Len() == len(model), id+"/Len")
	if s.Len() != len(model) {
		return
	}
	st := *s.stack
	for k := 0; k < len(model); k++ {
		verifAssert(vhSame(st[k+1], model[k]), id+"/slot")
	}
}

// vhAssertIndexViews checks Index(k) for every k in range against the model,
// using plain in-range indices.
func vhAssertIndexViews(s Stack, model []any, id string) {
	n := len(model)
	if cfg, _ := s.config(); cfg != nil && n > 0 {
		// every position is also reachable through its negative address when
		// negative indices are on, and the last one through any oversize index
		// when forward indices are on
		if cfg.opt&negidx != 0 {
			for k := 0; k < n; k++ {
				v, ok := s.Index(k - n)
				verifAssert(ok == (model[k] != nil), id+"/negative-index-ok")
				if model[k] != nil {
					verifAssert(vhSame(v, model[k]), id+"/negative-index-value")
				}
			}
		} else {
			_, ok := s.Index(-1)
			verifAssert(!ok, id+"/negative-index-off")
		}
		over := nondetInt()
		verifAssume(over >= n)
		v, ok := s.Index(over)
		if cfg.opt&fwdidx != 0 {
			verifAssert(ok == (model[n-1] != nil), id+"/forward-index-ok")
			if model[n-1] != nil {
				verifAssert(vhSame(v, model[n-1]), id+"/forward-index-value")
			}
		} else {
			verifAssert(!ok, id+"/forward-index-off")
		}
	}
	for k := 0; k < len(model); k++ {
		v, ok := s.Index(k)
		if model[k] == nil {
			verifAssert(!ok, id+"/Index-nil-ok")
			verifAssert(v == nil, id+"/Index-nil-val")
		} else {
			verifAssert(ok, id+"/Index-ok")
			verifAssert(vhSame(v, model[k]), id+"/Index-val")
		}
	}
}

// vhCfgSnapshot is a plain copy of every scalar field of a configuration
// record plus identities of its closures.
type vhCfgSnap struct {
	id, cat, sym, ljc string
	cap               int
	opt               cfgFlag
	typ               stackType
	ord               bool
	lvl               logLevels
	logger            any
	nenc              int
	enc               string
	err               error
	aux               int
	auxp              bool
	mtx               bool
	ldr               bool
	evl, ppf, vpf, rpf, eqf, lss, umf, maf, mfn int
}

func vhSnapCfg(c *nodeConfig) vhCfgSnap {
	var s vhCfgSnap
	s.id, s.cat, s.sym, s.ljc = c.id, c.cat, c.sym, c.ljc
	s.cap, s.opt, s.typ, s.ord = c.cap, c.opt, c.typ, c.ord
	if c.log != nil {
		s.lvl = c.log.lvl
		s.logger = c.log.log
	}
	s.nenc = len(c.enc)
	for _, e := range c.enc {
		s.enc += "["
		for _, x := range e {
			s.enc += x + ","
		}
		s.enc += "]"
	}
	s.err = c.err
	s.aux = len(c.aux)
	s.auxp = c.aux != nil
	s.mtx = c.mtx != nil
	s.ldr = c.ldr != nil
	s.evl = verifFuncID(c.evl)
	s.ppf = verifFuncID(c.ppf)
	s.vpf = verifFuncID(c.vpf)
	s.rpf = verifFuncID(c.rpf)
	s.eqf = verifFuncID(c.eqf)
	s.lss = verifFuncID(c.lss)
	s.umf = verifFuncID(c.umf)
	s.maf = verifFuncID(c.maf)
	s.mfn = verifFuncID(c.mfn)
	return s
}

func vhAssertCfgSame(a, b vhCfgSnap, id string) {
	verifAssert(a.id == b.id, id+"/id")
	verifAssert(a.cat == b.cat, id+"/cat")
	verifAssert(a.sym == b.sym, id+"/sym")
	verifAssert(a.ljc == b.ljc, id+"/ljc")
	verifAssert(a.cap == b.cap, id+"/cap")
	verifAssert(a.opt == b.opt, id+"/opt")
	verifAssert(a.typ == b.typ, id+"/typ")
	verifAssert(a.ord == b.ord, id+"/ord")
	verifAssert(a.lvl == b.lvl, id+"/loglevel")
	verifAssert(a.logger == b.logger, id+"/logger")
	verifAssert(a.nenc == b.nenc, id+"/nenc")
	verifAssert(a.enc == b.enc, id+"/enc")
	verifAssert(a.err == b.err, id+"/err")
	verifAssert(a.aux == b.aux, id+"/auxlen")
	verifAssert(a.auxp == b.auxp, id+"/auxptr")
	verifAssert(a.mtx == b.mtx, id+"/mtx")
	verifAssert(a.ldr == b.ldr, id+"/ldr")
	verifAssert(a.evl == b.evl, id+"/evl")
	verifAssert(a.ppf == b.ppf, id+"/ppf")
	verifAssert(a.vpf == b.vpf, id+"/vpf")
	verifAssert(a.rpf == b.rpf, id+"/rpf")
	verifAssert(a.eqf == b.eqf, id+"/eqf")
	verifAssert(a.lss == b.lss, id+"/lss")
	verifAssert(a.umf == b.umf, id+"/umf")
	verifAssert(a.maf == b.maf, id+"/maf")
	verifAssert(a.mfn == b.mfn, id+"/mfn")
}

// ---- user-declared aliases of Stack and Condition (README "Type Aliasing")

type vhAliasStack Stack   // alias without its own String method
type vhAliasStackS Stack  // alias with its own String method
type vhAliasCond Condition
type vhAliasCondS Condition

// The aliases' own String methods deliberately differ from the native
// rendering: an alias must be treated as the native value it converts to.
func (r vhAliasStackS) String() string { return "<<alias stack stringer>>" }
func (r vhAliasCondS) String() string  { return "<<alias condition stringer>>" }

// vhStackOf returns the native Stack behind a value the harness created, and
// whether the value is a Stack / Stack alias / non-nil pointer to one.
func vhStackOf(x any) (Stack, bool) {
	switch v := x.(type) {
	case Stack:
		return v, v.stack != nil
	case vhAliasStack:
		return Stack(v), v.stack != nil
	case vhAliasStackS:
		return Stack(v), v.stack != nil
	case *Stack:
		if v != nil {
			return *v, v.stack != nil
		}
	case *vhAliasStack:
		if v != nil {
			return Stack(*v), v.stack != nil
		}
	case *vhAliasStackS:
		if v != nil {
			return Stack(*v), v.stack != nil
		}
	}
	return Stack{}, false
}

// vhCondOf is the Condition counterpart of vhStackOf.
func vhCondOf(x any) (Condition, bool) {
	switch v := x.(type) {
	case Condition:
		return v, v.condition != nil
	case vhAliasCond:
		return Condition(v), v.condition != nil
	case vhAliasCondS:
		return Condition(v), v.condition != nil
	case *Condition:
		if v != nil {
			return *v, v.condition != nil
		}
	case *vhAliasCond:
		if v != nil {
			return Condition(*v), v.condition != nil
		}
	case *vhAliasCondS:
		if v != nil {
			return Condition(*v), v.condition != nil
		}
	}
	return Condition{}, false
}

// vhWrapStack presents s as native (0), alias value (1), alias with String
// (2), pointer to alias (3) or pointer to native Stack (4).
func vhWrapStack(s Stack, form int) any {
	switch form {
	case 1:
		return vhAliasStack(s)
	case 2:
		return vhAliasStackS(s)
	case 3:
		a := vhAliasStack(s)
		return &a
	case 4:
		return &s
	}
	return s
}

// vhWrapCond presents c as native (0), alias (1), alias with String (2) or
// pointer to alias (3).
func vhWrapCond(c Condition, form int) any {
	switch form {
	case 1:
		return vhAliasCond(c)
	case 2:
		return vhAliasCondS(c)
	case 3:
		a := vhAliasCond(c)
		return &a
	}
	return c
}

// vhSameElem compares two element values the harness created: primitives by
// value, Stacks/Conditions (in any wrapping) by identity of the instance.
func vhSameElem(a, b any) bool {
	if a == nil || b == nil {
		return a == nil && b == nil
	}
	if sa, ok := vhStackOf(a); ok {
		sb, ok2 := vhStackOf(b)
		return ok2 && sa.stack == sb.stack
	}
	if ca, ok := vhCondOf(a); ok {
		cb, ok2 := vhCondOf(b)
		return ok2 && ca.condition == cb.condition
	}
	return vhSame(a, b)
}

// vhAssertElems asserts that the raw content of s is exactly model.
func vhAssertElems(s Stack, model []any, id string) {
	verifAssert(s.Len() == len(model), id+"/Len")
	if s.Len() != len(model) {
		return
	}
	st := *s.stack
	for k := range model {
		verifAssert(vhSameElem(st[k+1], model[k]), id+"/slot")
	}
}
