package symx

// Write tracking for queries (C11): verifFreeze(root) records every memory
// cell reachable from root; until verifThaw, a store into one of them is a
// violation of kind "write" (reported once per site), whatever value is
// stored.  Natively such a finding is confirmed by running the query from two
// goroutines under the race detector.

import "golang.org/x/tools/go/ssa"

type frozenSet struct {
	cells map[*value]bool
	maps  map[*omap]bool
	seen  map[interface{}]bool
	hits  map[string]bool
}

func (ex *Exec) freeze(root value) {
	fs := &frozenSet{cells: map[*value]bool{}, maps: map[*omap]bool{}, seen: map[interface{}]bool{}, hits: map[string]bool{}}
	fs.walk(root, 0)
	// package-level state is frozen as well; variables nothing has touched
	// yet (zero-valued, created on first use) are materialised first
	for _, m := range ex.eng.Pkg.Members {
		if g, ok := m.(*ssa.Global); ok {
			ex.global(g)
		}
	}
	for _, g := range ex.globals {
		fs.walk(g, 0)
	}
	ex.frozen = fs
}

func (fs *frozenSet) walk(v value, depth int) {
	if depth > 64 {
		return
	}
	switch x := v.(type) {
	case *value:
		if x == nil || fs.seen[x] {
			return
		}
		fs.seen[x] = true
		fs.cells[x] = true
		fs.walk(*x, depth+1)
	case []value:
		full := x[:cap(x)]
		if len(full) == 0 {
			return
		}
		if fs.seen[&full[0]] {
			return
		}
		fs.seen[&full[0]] = true
		for i := range full {
			fs.cells[&full[i]] = true
			fs.walk(full[i], depth+1)
		}
	case structure:
		for i := range x {
			fs.cells[&x[i]] = true
			fs.walk(x[i], depth+1)
		}
	case array:
		for i := range x {
			fs.cells[&x[i]] = true
			fs.walk(x[i], depth+1)
		}
	case iface:
		fs.walk(x.v, depth+1)
	case *omap:
		if x == nil || fs.maps[x] {
			return
		}
		fs.maps[x] = true
		for _, e := range x.vals {
			fs.walk(e, depth+1)
		}
	case *closure:
		if x == nil || fs.seen[x] {
			return
		}
		fs.seen[x] = true
		for _, e := range x.Env {
			fs.walk(e, depth+1)
		}
	case rvalue:
		fs.walk(x.v, depth+1)
	}
}

func (ex *Exec) checkFrozenWrite(fr *frame, addr interface{}) {
	fs := ex.frozen
	if fs == nil {
		return
	}
	hit := false
	switch a := addr.(type) {
	case *value:
		hit = fs.cells[a]
	case *omap:
		hit = fs.maps[a]
	}
	if !hit {
		return
	}
	site := "write:" + fr.siteKey()
	if fs.hits[site] {
		return
	}
	fs.hits[site] = true
	if ex.atFrontier() {
		ex.recordViolation("write", site, "store into pre-existing memory during a query at "+fr.where(), ex.model)
	}
}
