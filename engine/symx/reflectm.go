package symx

// Model of package reflect, as far as the package under test reaches it.
// Dynamic types are concrete on every path, so every type-level question is
// answered by go/types; values are the engine's own values.  The panics the
// real package raises on reachable misuse (zero Value, unexported field) are
// reproduced as runtime panics of kind "reflect".

import (
	"fmt"
	"go/types"

	"golang.org/x/tools/go/ssa"
)

type rtype struct {
	t types.Type
}

// rvalue models reflect.Value.
type rvalue struct {
	t     types.Type
	v     value
	valid bool
	ro    bool   // obtained through an unexported field
	addr  *value // address when addressable (unused by the library)
}

// boundMethod is a method value produced by Value.MethodByName.
type boundMethod struct {
	fn   *ssa.Function
	recv value
}

// reflect.Kind numbering
const (
	rkInvalid = iota
	rkBool
	rkInt
	rkInt8
	rkInt16
	rkInt32
	rkInt64
	rkUint
	rkUint8
	rkUint16
	rkUint32
	rkUint64
	rkUintptr
	rkFloat32
	rkFloat64
	rkComplex64
	rkComplex128
	rkArray
	rkChan
	rkFunc
	rkInterface
	rkMap
	rkPointer
	rkSlice
	rkString
	rkStruct
	rkUnsafePointer
)

func kindOfType(t types.Type) uint {
	switch u := t.Underlying().(type) {
	case *types.Basic:
		switch u.Kind() {
		case types.Bool:
			return rkBool
		case types.Int:
			return rkInt
		case types.Int8:
			return rkInt8
		case types.Int16:
			return rkInt16
		case types.Int32:
			return rkInt32
		case types.Int64:
			return rkInt64
		case types.Uint:
			return rkUint
		case types.Uint8:
			return rkUint8
		case types.Uint16:
			return rkUint16
		case types.Uint32:
			return rkUint32
		case types.Uint64:
			return rkUint64
		case types.Uintptr:
			return rkUintptr
		case types.Float32:
			return rkFloat32
		case types.Float64:
			return rkFloat64
		case types.Complex64:
			return rkComplex64
		case types.Complex128:
			return rkComplex128
		case types.String:
			return rkString
		case types.UnsafePointer:
			return rkUnsafePointer
		}
	case *types.Array:
		return rkArray
	case *types.Chan:
		return rkChan
	case *types.Signature:
		return rkFunc
	case *types.Interface:
		return rkInterface
	case *types.Map:
		return rkMap
	case *types.Pointer:
		return rkPointer
	case *types.Slice:
		return rkSlice
	case *types.Struct:
		return rkStruct
	}
	panic(engineError{"reflect model: kind of " + t.String()})
}

func (ex *Exec) mkType(t types.Type) value {
	if t == nil {
		return iface{}
	}
	return iface{t: ex.eng.ext.reflectRtype, v: rtype{t}}
}

func reflPanic(fr *frame, format string, args ...interface{}) {
	panic(runtimePanic{kind: "reflect", msg: fmt.Sprintf(format, args...), where: fr.siteKey() + " [" + fr.where() + "]"})
}

func argType(fr *frame, v value) types.Type {
	switch v := v.(type) {
	case rtype:
		return v.t
	case iface:
		if v.t == nil {
			reflPanic(fr, "nil reflect.Type")
		}
		return v.v.(rtype).t
	}
	panic(engineError{fmt.Sprintf("reflect model: expected Type, got %T", v)})
}

func mustValid(fr *frame, v rvalue, meth string) {
	if !v.valid {
		reflPanic(fr, "reflect: call of reflect.Value.%s on zero Value", meth)
	}
}

func exported(name string) bool {
	return name != "" && name[0] >= 'A' && name[0] <= 'Z'
}

func (ex *Exec) valueIsZero(fr *frame, t types.Type, v value) value {
	switch u := t.Underlying().(type) {
	case *types.Basic, *types.Array, *types.Struct:
		_ = u
		if !types.Comparable(t) {
			// arrays/structs with uncomparable parts: recurse
			switch u := t.Underlying().(type) {
			case *types.Struct:
				acc := ex.ts.Bool(true)
				for i := 0; i < u.NumFields(); i++ {
					acc = ex.ts.And(acc, ex.term(ex.valueIsZero(fr, u.Field(i).Type(), v.(structure)[i])))
				}
				return ex.mkval(types.Bool, acc)
			case *types.Array:
				acc := ex.ts.Bool(true)
				for _, e := range v.(array) {
					acc = ex.ts.And(acc, ex.term(ex.valueIsZero(fr, u.Elem(), e)))
				}
				return ex.mkval(types.Bool, acc)
			}
		}
		if _, ok := v.(rvalue); ok {
			return !v.(rvalue).valid
		}
		// float zero: reflect uses bit pattern tests; +0 only
		return ex.eqv(t, v, zero(t))
	case *types.Pointer:
		return v.(*value) == nil
	case *types.Slice:
		return v.([]value) == nil
	case *types.Map:
		return v.(*omap) == nil
	case *types.Signature:
		switch f := v.(type) {
		case *ssa.Function:
			return f == nil
		}
		return false
	case *types.Interface:
		return v.(iface).t == nil
	case *types.Chan:
		return v.(chanValue).id == 0
	}
	panic(engineError{"reflect model: IsZero of " + t.String()})
}

func init() {
	in := intrinsics

	in["reflect.TypeOf"] = func(fr *frame, a []value) value {
		return fr.ex.mkType(a[0].(iface).t)
	}
	in["reflect.ValueOf"] = func(fr *frame, a []value) value {
		x := a[0].(iface)
		if x.t == nil {
			return rvalue{}
		}
		return rvalue{t: x.t, v: x.v, valid: true}
	}

	// ---- Type methods (dynamic type *reflect.rtype)
	tm := func(name string, f func(fr *frame, t types.Type, a []value) value) {
		in["(*reflect.rtype)."+name] = func(fr *frame, a []value) value {
			return f(fr, a[0].(rtype).t, a[1:])
		}
	}
	tm("Kind", func(fr *frame, t types.Type, a []value) value { return kindOfType(t) })
	tm("String", func(fr *frame, t types.Type, a []value) value {
		return types.TypeString(t, func(p *types.Package) string { return p.Name() })
	})
	tm("Name", func(fr *frame, t types.Type, a []value) value {
		if n, ok := t.(*types.Named); ok {
			return n.Obj().Name()
		}
		if b, ok := t.(*types.Basic); ok {
			return b.Name()
		}
		return ""
	})
	tm("Elem", func(fr *frame, t types.Type, a []value) value {
		switch u := t.Underlying().(type) {
		case *types.Pointer:
			return fr.ex.mkType(u.Elem())
		case *types.Slice:
			return fr.ex.mkType(u.Elem())
		case *types.Array:
			return fr.ex.mkType(u.Elem())
		case *types.Map:
			return fr.ex.mkType(u.Elem())
		case *types.Chan:
			return fr.ex.mkType(u.Elem())
		}
		reflPanic(fr, "reflect: Elem of invalid type %s", t)
		return nil
	})
	tm("NumField", func(fr *frame, t types.Type, a []value) value {
		s, ok := t.Underlying().(*types.Struct)
		if !ok {
			reflPanic(fr, "reflect: NumField of non-struct type %s", t)
		}
		return s.NumFields()
	})
	tm("Field", func(fr *frame, t types.Type, a []value) value {
		s, ok := t.Underlying().(*types.Struct)
		if !ok {
			reflPanic(fr, "reflect: Field of non-struct type %s", t)
		}
		i := int(concreteInt(fr, a[0], "reflect.Type.Field"))
		if i < 0 || i >= s.NumFields() {
			reflPanic(fr, "reflect: Field index out of bounds")
		}
		f := s.Field(i)
		sf := zero(fr.ex.eng.ext.structField).(structure)
		st := fr.ex.eng.ext.structField.Underlying().(*types.Struct)
		for k := 0; k < st.NumFields(); k++ {
			switch st.Field(k).Name() {
			case "Name":
				sf[k] = f.Name()
			case "PkgPath":
				if !f.Exported() && f.Pkg() != nil {
					sf[k] = f.Pkg().Path()
				}
			case "Type":
				sf[k] = fr.ex.mkType(f.Type())
			case "Anonymous":
				sf[k] = f.Anonymous()
			case "Index":
				sf[k] = []value{i}
			}
		}
		return sf
	})
	tm("ConvertibleTo", func(fr *frame, t types.Type, a []value) value {
		u := argType(fr, a[0])
		return types.ConvertibleTo(t, u)
	})
	tm("AssignableTo", func(fr *frame, t types.Type, a []value) value {
		return types.AssignableTo(t, argType(fr, a[0]))
	})
	tm("Comparable", func(fr *frame, t types.Type, a []value) value { return types.Comparable(t) })
	tm("NumMethod", func(fr *frame, t types.Type, a []value) value {
		ms := types.NewMethodSet(t)
		n := 0
		for i := 0; i < ms.Len(); i++ {
			if ms.At(i).Obj().Exported() {
				n++
			}
		}
		return n
	})
	tm("Len", func(fr *frame, t types.Type, a []value) value {
		arr, ok := t.Underlying().(*types.Array)
		if !ok {
			reflPanic(fr, "reflect: Len of non-array type %s", t)
		}
		return int(arr.Len())
	})

	// ---- Value methods
	vm := func(name string, f func(fr *frame, v rvalue, a []value) value) {
		in["(reflect.Value)."+name] = func(fr *frame, a []value) value {
			return f(fr, a[0].(rvalue), a[1:])
		}
	}
	vm("IsValid", func(fr *frame, v rvalue, a []value) value { return v.valid })
	vm("Kind", func(fr *frame, v rvalue, a []value) value {
		if !v.valid {
			return uint(rkInvalid)
		}
		return kindOfType(v.t)
	})
	vm("Type", func(fr *frame, v rvalue, a []value) value {
		mustValid(fr, v, "Type")
		return fr.ex.mkType(v.t)
	})
	vm("Elem", func(fr *frame, v rvalue, a []value) value {
		if !v.valid {
			reflPanic(fr, "reflect: call of reflect.Value.Elem on zero Value")
		}
		switch u := v.t.Underlying().(type) {
		case *types.Pointer:
			p := v.v.(*value)
			if p == nil {
				return rvalue{}
			}
			return rvalue{t: u.Elem(), v: load(u.Elem(), p), valid: true, ro: v.ro, addr: p}
		case *types.Interface:
			itf := v.v.(iface)
			if itf.t == nil {
				return rvalue{}
			}
			return rvalue{t: itf.t, v: itf.v, valid: true, ro: v.ro}
		}
		reflPanic(fr, "reflect: call of reflect.Value.Elem on %s Value", v.t)
		return nil
	})
	vm("IsNil", func(fr *frame, v rvalue, a []value) value {
		mustValid(fr, v, "IsNil")
		switch v.t.Underlying().(type) {
		case *types.Pointer, *types.Slice, *types.Map, *types.Signature, *types.Interface, *types.Chan:
			return fr.ex.valueIsZero(fr, v.t, v.v)
		}
		reflPanic(fr, "reflect: call of reflect.Value.IsNil on %s Value", v.t)
		return nil
	})
	vm("IsZero", func(fr *frame, v rvalue, a []value) value {
		mustValid(fr, v, "IsZero")
		return fr.ex.valueIsZero(fr, v.t, v.v)
	})
	vm("Interface", func(fr *frame, v rvalue, a []value) value {
		mustValid(fr, v, "Interface")
		if v.ro {
			reflPanic(fr, "reflect.Value.Interface: cannot return value obtained from unexported field or method")
		}
		if _, ok := v.t.Underlying().(*types.Interface); ok {
			return v.v.(iface)
		}
		if bm, ok := v.v.(boundMethod); ok {
			return iface{t: v.t, v: bm}
		}
		return iface{t: v.t, v: v.v}
	})
	vm("CanInterface", func(fr *frame, v rvalue, a []value) value {
		mustValid(fr, v, "CanInterface")
		return !v.ro
	})
	vm("Equal", func(fr *frame, v rvalue, a []value) value {
		u := a[0].(rvalue)
		unwrap := func(x rvalue) rvalue {
			if x.valid {
				if _, ok := x.t.Underlying().(*types.Interface); ok {
					itf := x.v.(iface)
					if itf.t == nil {
						return rvalue{}
					}
					return rvalue{t: itf.t, v: itf.v, valid: true}
				}
			}
			return x
		}
		v, u = unwrap(v), unwrap(u)
		if !v.valid || !u.valid {
			return v.valid == u.valid
		}
		if !types.Identical(v.t, u.t) {
			return false
		}
		switch v.t.Underlying().(type) {
		case *types.Slice, *types.Map, *types.Signature:
			reflPanic(fr, "reflect.Value.Equal: values of type %s are not comparable", v.t)
		}
		return fr.ex.eqv(v.t, v.v, u.v)
	})
	vm("Len", func(fr *frame, v rvalue, a []value) value {
		mustValid(fr, v, "Len")
		switch x := v.v.(type) {
		case []value:
			return len(x)
		case array:
			return len(x)
		case string:
			return len(x)
		case symStr:
			return len(x)
		case *omap:
			return x.len()
		}
		reflPanic(fr, "reflect: call of reflect.Value.Len on %s Value", v.t)
		return nil
	})
	vm("Cap", func(fr *frame, v rvalue, a []value) value {
		mustValid(fr, v, "Cap")
		switch x := v.v.(type) {
		case []value:
			return cap(x)
		case array:
			return len(x)
		}
		reflPanic(fr, "reflect: call of reflect.Value.Cap on %s Value", v.t)
		return nil
	})
	vm("Index", func(fr *frame, v rvalue, a []value) value {
		mustValid(fr, v, "Index")
		i := int(concreteInt(fr, a[0], "reflect.Value.Index"))
		switch x := v.v.(type) {
		case []value:
			if i < 0 || i >= len(x) {
				reflPanic(fr, "reflect: slice index out of range")
			}
			et := v.t.Underlying().(*types.Slice).Elem()
			return rvalue{t: et, v: load(et, &x[i]), valid: true, ro: v.ro, addr: &x[i]}
		case array:
			if i < 0 || i >= len(x) {
				reflPanic(fr, "reflect: array index out of range")
			}
			et := v.t.Underlying().(*types.Array).Elem()
			return rvalue{t: et, v: copyVal(x[i]), valid: true, ro: v.ro}
		case string:
			if i < 0 || i >= len(x) {
				reflPanic(fr, "reflect: string index out of range")
			}
			return rvalue{t: types.Typ[types.Uint8], v: x[i], valid: true}
		}
		reflPanic(fr, "reflect: call of reflect.Value.Index on %s Value", v.t)
		return nil
	})
	vm("NumField", func(fr *frame, v rvalue, a []value) value {
		mustValid(fr, v, "NumField")
		s, ok := v.t.Underlying().(*types.Struct)
		if !ok {
			reflPanic(fr, "reflect: call of reflect.Value.NumField on %s Value", v.t)
		}
		return s.NumFields()
	})
	vm("Field", func(fr *frame, v rvalue, a []value) value {
		mustValid(fr, v, "Field")
		s, ok := v.t.Underlying().(*types.Struct)
		if !ok {
			reflPanic(fr, "reflect: call of reflect.Value.Field on %s Value", v.t)
		}
		i := int(concreteInt(fr, a[0], "reflect.Value.Field"))
		if i < 0 || i >= s.NumFields() {
			reflPanic(fr, "reflect: Field index out of range")
		}
		f := s.Field(i)
		return rvalue{t: f.Type(), v: copyVal(v.v.(structure)[i]), valid: true, ro: v.ro || !f.Exported()}
	})
	vm("MapKeys", func(fr *frame, v rvalue, a []value) value {
		mustValid(fr, v, "MapKeys")
		mt, ok := v.t.Underlying().(*types.Map)
		if !ok {
			reflPanic(fr, "reflect: call of reflect.Value.MapKeys on %s Value", v.t)
		}
		m := v.v.(*omap)
		var out []value
		if m != nil {
			for _, k := range m.keys {
				out = append(out, rvalue{t: mt.Key(), v: k, valid: true, ro: v.ro})
			}
		}
		return out
	})
	vm("MapIndex", func(fr *frame, v rvalue, a []value) value {
		mustValid(fr, v, "MapIndex")
		mt, ok := v.t.Underlying().(*types.Map)
		if !ok {
			reflPanic(fr, "reflect: call of reflect.Value.MapIndex on %s Value", v.t)
		}
		k := a[0].(rvalue)
		mustValid(fr, k, "MapIndex(key)")
		e, found := v.v.(*omap).lookup(k.v)
		if !found {
			return rvalue{}
		}
		return rvalue{t: mt.Elem(), v: copyVal(e), valid: true, ro: v.ro}
	})
	vm("Convert", func(fr *frame, v rvalue, a []value) value {
		if !v.valid {
			reflPanic(fr, "reflect: call of reflect.Value.Convert on zero Value (nil pointer dereference in convertOp)")
		}
		dst := argType(fr, a[0])
		if !types.ConvertibleTo(v.t, dst) {
			reflPanic(fr, "reflect.Value.Convert: value of type %s cannot be converted to type %s", v.t, dst)
		}
		if types.Identical(v.t.Underlying(), dst.Underlying()) {
			return rvalue{t: dst, v: v.v, valid: true, ro: v.ro}
		}
		if _, ok := dst.Underlying().(*types.Interface); ok {
			return rvalue{t: dst, v: iface{t: v.t, v: v.v}, valid: true, ro: v.ro}
		}
		return rvalue{t: dst, v: fr.ex.conv(fr, dst, v.t, v.v), valid: true, ro: v.ro}
	})
	vm("MethodByName", func(fr *frame, v rvalue, a []value) value {
		mustValid(fr, v, "MethodByName")
		name := concreteStr(fr, a[0], "reflect.Value.MethodByName")
		if !exported(name) {
			return rvalue{}
		}
		recvT := v.t
		recv := v.v
		if _, ok := recvT.Underlying().(*types.Interface); ok {
			itf := recv.(iface)
			if itf.t == nil {
				reflPanic(fr, "reflect: Method on nil interface value")
			}
			recvT, recv = itf.t, itf.v
		}
		ms := fr.ex.eng.Prog.MethodSets.MethodSet(recvT)
		sel := ms.Lookup(nil, name)
		if sel == nil {
			return rvalue{}
		}
		fn := fr.ex.eng.Prog.MethodValue(sel)
		if fn == nil {
			return rvalue{}
		}
		sig := sel.Type().(*types.Signature)
		ft := types.NewSignatureType(nil, nil, nil, sig.Params(), sig.Results(), sig.Variadic())
		return rvalue{t: ft, v: boundMethod{fn: fn, recv: recv}, valid: true, ro: v.ro}
	})
	vm("Pointer", func(fr *frame, v rvalue, a []value) value {
		mustValid(fr, v, "Pointer")
		return uintptr(fr.ex.objID(v.v) * 16)
	})
	vm("String", func(fr *frame, v rvalue, a []value) value {
		if !v.valid {
			return "<invalid Value>"
		}
		if s, ok := v.v.(string); ok {
			return s
		}
		return "<" + v.t.String() + " Value>"
	})
	vm("Int", func(fr *frame, v rvalue, a []value) value {
		mustValid(fr, v, "Int")
		if s, ok := v.v.(sym); ok {
			w, sg := kindInfo(s.k)
			_ = w
			return fr.ex.mkval(types.Int64, fr.ex.ts.Resize(s.t, 64, sg))
		}
		return asInt64(v.v)
	})
	vm("Bool", func(fr *frame, v rvalue, a []value) value {
		mustValid(fr, v, "Bool")
		return v.v
	})
}
