package symx

import (
	"fmt"
	"go/token"
	"go/types"
	"os"
	"path/filepath"
	"sort"
	"strings"

	"golang.org/x/tools/go/packages"
	"golang.org/x/tools/go/ssa"
	"golang.org/x/tools/go/ssa/ssautil"
)

// extTypes caches types of other packages that the environment model needs.
type extTypes struct {
	reflectValue  types.Type // reflect.Value
	reflectRtype  types.Type // *reflect.rtype (dynamic type of reflect.Type values)
	errorString   types.Type // *errors.errorString
	runtimeError  types.Type // runtime.errorString (payload: string)
	structField   *types.Named
	pkgs          map[string]*types.Package
}

// Load type-checks /repo (dir) together with the harness files, which are
// overlaid as <dir>/zz_verif_*.go, and builds SSA for that package only.
func Load(dir string, harnessFiles map[string]string, withTests bool) (*Engine, error) {
	overlay := make(map[string][]byte)
	for name, path := range harnessFiles {
		b, err := os.ReadFile(path)
		if err != nil {
			return nil, err
		}
		overlay[filepath.Join(dir, name)] = b
	}
	fset := token.NewFileSet()
	cfg := &packages.Config{
		Mode:    packages.LoadAllSyntax,
		Dir:     dir,
		Fset:    fset,
		Overlay: overlay,
		Tests:   withTests,
		Env:     append(os.Environ(), "GOFLAGS=-mod=mod", "GOPROXY=off", "GOSUMDB=off", "GOTOOLCHAIN=local", "CGO_ENABLED=0"),
	}
	pkgs, err := packages.Load(cfg, ".")
	if err != nil {
		return nil, err
	}
	var errs []string
	packages.Visit(pkgs, nil, func(p *packages.Package) {
		for _, e := range p.Errors {
			errs = append(errs, e.Error())
		}
	})
	if len(errs) > 0 {
		return nil, fmt.Errorf("load errors:\n%s", strings.Join(errs, "\n"))
	}
	prog, spkgs := ssautil.AllPackages(pkgs, ssa.InstantiateGenerics|ssa.SanityCheckFunctions)
	var main *ssa.Package
	for i, p := range pkgs {
		if spkgs[i] == nil {
			continue
		}
		if withTests {
			// pick the test variant "pkg [pkg.test]"
			if strings.Contains(p.ID, "[") && !strings.HasSuffix(p.PkgPath, "_test") && !strings.HasSuffix(p.PkgPath, ".test") {
				main = spkgs[i]
			}
		} else if main == nil {
			main = spkgs[i]
		}
	}
	if main == nil {
		return nil, fmt.Errorf("package under test not found")
	}
	main.Build()
	eng := &Engine{Prog: prog, Pkg: main, Fset: fset, MaxSteps: 4_000_000, MaxLoop: 20000}
	eng.ext = &extTypes{pkgs: make(map[string]*types.Package)}
	for _, p := range prog.AllPackages() {
		eng.ext.pkgs[p.Pkg.Path()] = p.Pkg
	}
	look := func(pkg, name string) types.Type {
		p := eng.ext.pkgs[pkg]
		if p == nil {
			return nil
		}
		o := p.Scope().Lookup(name)
		if o == nil {
			return nil
		}
		return o.Type()
	}
	if t := look("reflect", "Value"); t != nil {
		eng.ext.reflectValue = t
	}
	if t := look("reflect", "rtype"); t != nil {
		eng.ext.reflectRtype = types.NewPointer(t)
	}
	if t := look("reflect", "StructField"); t != nil {
		eng.ext.structField = t.(*types.Named)
	}
	if t := look("errors", "errorString"); t != nil {
		eng.ext.errorString = types.NewPointer(t)
	}
	if t := look("runtime", "errorString"); t != nil {
		eng.ext.runtimeError = t
	}
	return eng, nil
}

// Externals lists the functions outside the package under test that its code
// references (for the evidence file and for checking the model's coverage).
func (eng *Engine) Externals() []string {
	seen := make(map[string]bool)
	for fn := range ssautil.AllFunctions(eng.Prog) {
		if fn.Pkg != eng.Pkg {
			continue
		}
		for _, b := range fn.Blocks {
			for _, in := range b.Instrs {
				for _, op := range in.Operands(nil) {
					if f, ok := (*op).(*ssa.Function); ok && f != nil && f.Pkg != nil && f.Pkg != eng.Pkg {
						seen[f.String()] = true
					}
				}
				if c, ok := in.(ssa.CallInstruction); ok {
					if m := c.Common().Method; m != nil && m.Pkg() != nil && m.Pkg() != eng.Pkg.Pkg {
						seen["invoke "+m.FullName()] = true
					}
				}
			}
		}
	}
	var r []string
	for s := range seen {
		r = append(r, s)
	}
	sort.Strings(r)
	return r
}
