package symx

// Symbolic lifting of the SSA operators.  Concrete operands fall through to
// the (unchanged) concrete operator tables of the interpreter this engine is
// derived from; anything that involves a sym/symStr builds SMT terms.

import (
	"fmt"
	"go/token"
	"go/types"
	"strings"
	"unicode/utf8"
	"unsafe"

	"golang.org/x/tools/go/ssa"
)

// zero returns a new "zero" value of the specified type.
func zero(t types.Type) value {
	switch t := t.(type) {
	case *types.Basic:
		if t.Kind() == types.UntypedNil {
			panic("untyped nil has no zero value")
		}
		if t.Info()&types.IsUntyped != 0 {
			t = types.Default(t).(*types.Basic)
		}
		switch t.Kind() {
		case types.Bool:
			return false
		case types.Int:
			return int(0)
		case types.Int8:
			return int8(0)
		case types.Int16:
			return int16(0)
		case types.Int32:
			return int32(0)
		case types.Int64:
			return int64(0)
		case types.Uint:
			return uint(0)
		case types.Uint8:
			return uint8(0)
		case types.Uint16:
			return uint16(0)
		case types.Uint32:
			return uint32(0)
		case types.Uint64:
			return uint64(0)
		case types.Uintptr:
			return uintptr(0)
		case types.Float32:
			return float32(0)
		case types.Float64:
			return float64(0)
		case types.Complex64:
			return complex64(0)
		case types.Complex128:
			return complex128(0)
		case types.String:
			return ""
		case types.UnsafePointer:
			return unsafe.Pointer(nil)
		default:
			panic(fmt.Sprint("zero for unexpected type:", t))
		}
	case *types.Pointer:
		return (*value)(nil)
	case *types.Array:
		a := make(array, t.Len())
		for i := range a {
			a[i] = zero(t.Elem())
		}
		return a
	case *types.Named:
		if isReflectValue(t) {
			return rvalue{}
		}
		return zero(t.Underlying())
	case *types.Alias:
		return zero(types.Unalias(t))
	case *types.Interface:
		return iface{} // nil type, methodset and value
	case *types.Slice:
		return []value(nil)
	case *types.Struct:
		s := make(structure, t.NumFields())
		for i := range s {
			s[i] = zero(t.Field(i).Type())
		}
		return s
	case *types.Tuple:
		if t.Len() == 1 {
			return zero(t.At(0).Type())
		}
		s := make(tuple, t.Len())
		for i := range s {
			s[i] = zero(t.At(i).Type())
		}
		return s
	case *types.Chan:
		return chanValue{}
	case *types.Map:
		return (*omap)(nil)
	case *types.Signature:
		return (*ssa.Function)(nil)
	}
	panic(fmt.Sprint("zero: unexpected ", t))
}

// chanValue is an opaque placeholder: channels can be stored and compared
// with nil but not operated on.
type chanValue struct{ id int }

func isReflectValue(t *types.Named) bool {
	o := t.Obj()
	return o.Pkg() != nil && o.Pkg().Path() == "reflect" && o.Name() == "Value"
}

// ---------------------------------------------------------------------
// strings

func strLen(x value) int {
	switch x := x.(type) {
	case string:
		return len(x)
	case symStr:
		return len(x)
	}
	panic(unsupportedf("strLen of %T", x))
}

func strBytes(x value) []value {
	switch x := x.(type) {
	case string:
		r := make([]value, len(x))
		for i := 0; i < len(x); i++ {
			r[i] = x[i]
		}
		return r
	case symStr:
		return []value(x)
	}
	panic(unsupportedf("strBytes of %T", x))
}

// normStr turns a byte vector into a Go string when every byte is concrete.
func normStr(b []value) value {
	for _, e := range b {
		if _, ok := e.(uint8); !ok {
			cp := make(symStr, len(b))
			copy(cp, b)
			return cp
		}
	}
	var sb strings.Builder
	for _, e := range b {
		sb.WriteByte(e.(uint8))
	}
	return sb.String()
}

func isStr(x value) bool {
	switch x.(type) {
	case string, symStr:
		return true
	}
	return false
}

// strEq returns the (possibly symbolic) equality of two strings.
func (ex *Exec) strEq(x, y value) value {
	if xs, ok := x.(string); ok {
		if ys, ok := y.(string); ok {
			return xs == ys
		}
	}
	if strLen(x) != strLen(y) {
		return false
	}
	xb, yb := strBytes(x), strBytes(y)
	acc := ex.ts.Bool(true)
	for i := range xb {
		acc = ex.ts.And(acc, ex.ts.Eq(ex.term(xb[i]), ex.term(yb[i])))
	}
	return ex.mkval(types.Bool, acc)
}

// strLess returns x < y (lexicographic, byte-wise).
func (ex *Exec) strLess(x, y value) *Term {
	xb, yb := strBytes(x), strBytes(y)
	// build from the end: less(i) = x[i]<y[i] or (x[i]==y[i] and less(i+1))
	n := len(xb)
	if len(yb) < n {
		n = len(yb)
	}
	acc := ex.ts.Bool(len(xb) < len(yb))
	for i := n - 1; i >= 0; i-- {
		a, b := ex.term(xb[i]), ex.term(yb[i])
		acc = ex.ts.Or(ex.ts.Cmp("bvult", a, b), ex.ts.And(ex.ts.Eq(a, b), acc))
	}
	return acc
}

// ---------------------------------------------------------------------
// equality

// eq returns x == y at static type t as a bool or a symbolic bool.
func (ex *Exec) eq(t types.Type, x, y value) value {
	switch t.Underlying().(type) {
	case *types.Map, *types.Signature, *types.Slice:
		// one operand is literally nil
		return isNilRef(x) == isNilRef(y) && isNilRef(x)
	}
	return ex.eqv(t, x, y)
}

func isNilRef(x value) bool {
	switch x := x.(type) {
	case *omap:
		return x == nil
	case *ssa.Function:
		return x == nil
	case *closure:
		return x == nil
	case []value:
		return x == nil
	case *ssa.Builtin, boundMethod:
		return false
	}
	panic(unsupportedf("isNilRef: %T", x))
}

func (ex *Exec) eqv(t types.Type, x, y value) value {
	switch x.(type) {
	case []value, *omap, *ssa.Function, *closure, boundMethod:
		// reachable only through interface values: a run-time panic in Go
		where := ""
		if ex.curFrame != nil {
			where = ex.curFrame.siteKey() + " [" + ex.curFrame.where() + "]"
		}
		panic(runtimePanic{kind: "uncomparable", msg: "comparing uncomparable type " + t.String(), where: where})
	}
	if !hasSym(x) && !hasSym(y) {
		switch x.(type) {
		case chanValue:
			return x == y
		case rvalue:
			panic(unsupportedf("comparison of reflect.Value"))
		case *ssa.Function, *closure, []value, *omap:
			panic(runtimePanic{kind: "uncomparable", msg: "comparing uncomparable type " + t.String()})
		}
		return ex.equalsConcreteRT(t, x, y)
	}
	switch x := x.(type) {
	case iface:
		yi := y.(iface)
		if !sameType(x.t, yi.t) {
			return false
		}
		if x.t == nil {
			return true
		}
		return ex.eqv(x.t, x.v, yi.v)
	case structure:
		ys := y.(structure)
		tStruct := t.Underlying().(*types.Struct)
		acc := ex.ts.Bool(true)
		for i, n := 0, tStruct.NumFields(); i < n; i++ {
			if f := tStruct.Field(i); f.Name() != "_" {
				acc = ex.ts.And(acc, ex.term(ex.eqv(f.Type(), x[i], ys[i])))
			}
		}
		return ex.mkval(types.Bool, acc)
	case array:
		ya := y.(array)
		tElt := t.Underlying().(*types.Array).Elem()
		acc := ex.ts.Bool(true)
		for i := range x {
			acc = ex.ts.And(acc, ex.term(ex.eqv(tElt, x[i], ya[i])))
		}
		return ex.mkval(types.Bool, acc)
	}
	if isStr(x) {
		return ex.strEq(x, y)
	}
	return ex.mkval(types.Bool, ex.ts.Eq(ex.term(x), ex.term(y)))
}

// ---------------------------------------------------------------------
// binary / unary operators

func (ex *Exec) binop(fr *frame, op token.Token, t types.Type, x, y value) value {
	switch op {
	case token.EQL:
		return ex.eq(t, x, y)
	case token.NEQ:
		r := ex.eq(t, x, y)
		if b, ok := r.(bool); ok {
			return !b
		}
		return ex.mkval(types.Bool, ex.ts.Not(r.(sym).t))
	}
	_, xs := x.(sym)
	_, ys := y.(sym)
	_, xss := x.(symStr)
	_, yss := y.(symStr)
	if !xs && !ys && !xss && !yss {
		// concrete: make the runtime errors explicit
		switch op {
		case token.QUO, token.REM:
			if k, ok := kindOfValue(y); ok && k != types.Bool {
				if ex.term(y).val == 0 {
					fr.rtPanic("divide", "integer divide by zero")
				}
			}
		case token.SHL, token.SHR:
			if _, ok := asUnsigned(y); !ok {
				fr.rtPanic("shift", "negative shift amount")
			}
		}
		return binopConcrete(op, t, x, y)
	}
	if xss || yss || isStr(x) {
		switch op {
		case token.ADD:
			return normStr(append(append([]value{}, strBytes(x)...), strBytes(y)...))
		case token.LSS:
			return ex.mkval(types.Bool, ex.strLess(x, y))
		case token.GTR:
			return ex.mkval(types.Bool, ex.strLess(y, x))
		case token.LEQ:
			return ex.mkval(types.Bool, ex.ts.Not(ex.strLess(y, x)))
		case token.GEQ:
			return ex.mkval(types.Bool, ex.ts.Not(ex.strLess(x, y)))
		}
		panic(unsupportedf("string op %s", op))
	}
	k, _ := kindOfValue(x)
	w, signed := kindInfo(k)
	a := ex.term(x)
	ts := ex.ts
	if w == 0 {
		panic(unsupportedf("binop %s on bool", op))
	}
	if op == token.SHL || op == token.SHR {
		ky, _ := kindOfValue(y)
		wy, sy := kindInfo(ky)
		b := ex.term(y)
		if sy {
			if ex.branch(ts.Cmp("bvslt", b, ts.Const(wy, 0))) {
				fr.rtPanic("shift", "negative shift amount")
			}
		}
		// saturate the count to the operand width
		var cnt *Term
		if wy > w {
			big := ts.Cmp("bvuge", b, ts.Const(wy, uint64(w)))
			cnt = ts.Ite(big, ts.Const(w, uint64(w)), ts.Extract(b, w-1, 0))
		} else {
			cnt = ts.ZExt(b, w)
		}
		switch {
		case op == token.SHL:
			return ex.mkval(k, ts.BV("bvshl", a, cnt))
		case signed:
			return ex.mkval(k, ts.BV("bvashr", a, cnt))
		default:
			return ex.mkval(k, ts.BV("bvlshr", a, cnt))
		}
	}
	b := ex.term(y)
	switch op {
	case token.ADD:
		return ex.mkval(k, ts.BV("bvadd", a, b))
	case token.SUB:
		return ex.mkval(k, ts.BV("bvsub", a, b))
	case token.MUL:
		return ex.mkval(k, ts.BV("bvmul", a, b))
	case token.QUO, token.REM:
		if ex.branch(ts.Eq(b, ts.Const(w, 0))) {
			fr.rtPanic("divide", "integer divide by zero")
		}
		var o string
		switch {
		case op == token.QUO && signed:
			o = "bvsdiv"
		case op == token.QUO:
			o = "bvudiv"
		case signed:
			o = "bvsrem"
		default:
			o = "bvurem"
		}
		return ex.mkval(k, ts.BV(o, a, b))
	case token.AND:
		return ex.mkval(k, ts.BV("bvand", a, b))
	case token.OR:
		return ex.mkval(k, ts.BV("bvor", a, b))
	case token.XOR:
		return ex.mkval(k, ts.BV("bvxor", a, b))
	case token.AND_NOT:
		return ex.mkval(k, ts.BV("bvand", a, ts.BVNot(b)))
	case token.LSS, token.LEQ, token.GTR, token.GEQ:
		var o string
		switch op {
		case token.LSS:
			o = "lt"
		case token.LEQ:
			o = "le"
		case token.GTR:
			o = "gt"
		case token.GEQ:
			o = "ge"
		}
		if signed {
			o = "bvs" + o
		} else {
			o = "bvu" + o
		}
		return ex.mkval(types.Bool, ts.Cmp(o, a, b))
	}
	panic(unsupportedf("symbolic binop %s", op))
}

func (ex *Exec) unop(fr *frame, instr *ssa.UnOp, x value) value {
	switch instr.Op {
	case token.MUL:
		p := x.(*value)
		if p == nil {
			fr.rtPanic("nil", "nil pointer dereference (load of %s)", instr.X.Type())
		}
		if ex.hooks != nil {
			ex.hooks.noteRead(fr, p)
		}
		return load(mustDeref(instr.X.Type()), p)
	case token.ARROW:
		panic(engineError{"channel receive is not supported"})
	}
	if s, ok := x.(sym); ok {
		switch instr.Op {
		case token.NOT:
			return ex.mkval(types.Bool, ex.ts.Not(s.t))
		case token.SUB:
			return ex.mkval(s.k, ex.ts.BVNeg(s.t))
		case token.XOR:
			return ex.mkval(s.k, ex.ts.BVNot(s.t))
		}
		panic(unsupportedf("symbolic unop %s", instr.Op))
	}
	return unopConcrete(instr, x)
}

// ---------------------------------------------------------------------
// conversions

func basicKindOf(t types.Type) (types.BasicKind, bool) {
	if b, ok := t.Underlying().(*types.Basic); ok {
		return b.Kind(), true
	}
	return 0, false
}

func isByteSlice(t types.Type) bool {
	if s, ok := t.Underlying().(*types.Slice); ok {
		if b, ok := s.Elem().Underlying().(*types.Basic); ok {
			return b.Kind() == types.Byte
		}
	}
	return false
}

// encodeRune returns the UTF-8 encoding of a symbolic code point as byte
// values, forking on the encoded length.
func (ex *Exec) encodeRune(r sym) []value {
	ts := ex.ts
	w, signed := kindInfo(r.k)
	t := r.t
	c := func(v uint64) *Term { return ts.Const(w, v) }
	ult := func(a *Term, v uint64) *Term { return ts.Cmp("bvult", a, c(v)) }
	byteOf := func(x *Term) value { return ex.mkval(types.Uint8, ts.Extract(x, 7, 0)) }
	_ = signed
	if ex.branch(ult(t, 0x80)) {
		return []value{byteOf(t)}
	}
	if ex.branch(ult(t, 0x800)) {
		b0 := ts.BV("bvor", c(0xC0), ts.BV("bvlshr", t, c(6)))
		b1 := ts.BV("bvor", c(0x80), ts.BV("bvand", t, c(0x3F)))
		return []value{byteOf(b0), byteOf(b1)}
	}
	// surrogates and out-of-range values become U+FFFD
	bad := ts.Or(ts.And(ts.Cmp("bvuge", t, c(0xD800)), ult(t, 0xE000)), ts.Cmp("bvugt", t, c(0x10FFFF)))
	if ex.branch(bad) {
		return strBytes(string(utf8.RuneError))
	}
	if ex.branch(ult(t, 0x10000)) {
		b0 := ts.BV("bvor", c(0xE0), ts.BV("bvlshr", t, c(12)))
		b1 := ts.BV("bvor", c(0x80), ts.BV("bvand", ts.BV("bvlshr", t, c(6)), c(0x3F)))
		b2 := ts.BV("bvor", c(0x80), ts.BV("bvand", t, c(0x3F)))
		return []value{byteOf(b0), byteOf(b1), byteOf(b2)}
	}
	b0 := ts.BV("bvor", c(0xF0), ts.BV("bvlshr", t, c(18)))
	b1 := ts.BV("bvor", c(0x80), ts.BV("bvand", ts.BV("bvlshr", t, c(12)), c(0x3F)))
	b2 := ts.BV("bvor", c(0x80), ts.BV("bvand", ts.BV("bvlshr", t, c(6)), c(0x3F)))
	b3 := ts.BV("bvor", c(0x80), ts.BV("bvand", t, c(0x3F)))
	return []value{byteOf(b0), byteOf(b1), byteOf(b2), byteOf(b3)}
}

func (ex *Exec) conv(fr *frame, tDst, tSrc types.Type, x value) value {
	switch xv := x.(type) {
	case sym:
		kd, ok := basicKindOf(tDst)
		if !ok {
			panic(unsupportedf("conversion of symbolic %s to %s", tSrc, tDst))
		}
		if kd == types.String {
			// string(rune)
			ws, ss := kindInfo(xv.k)
			r := xv
			if ws < 32 {
				r = sym{k: types.Int32, t: ex.ts.Resize(xv.t, 32, ss)}
			} else if ws > 32 {
				// values that do not fit a rune are invalid code points
				fits := ex.ts.Cmp("bvule", xv.t, ex.ts.Const(ws, 0x10FFFF))
				if !ex.branch(fits) {
					return string(utf8.RuneError)
				}
				r = sym{k: types.Int32, t: ex.ts.Extract(xv.t, 31, 0)}
			}
			return normStr(ex.encodeRune(r))
		}
		wd, _ := kindInfo(kd)
		ws, ss := kindInfo(xv.k)
		if wd == 0 || ws == 0 {
			if wd == ws {
				return x
			}
			panic(unsupportedf("conversion bool<->int"))
		}
		switch kd {
		case types.Float32, types.Float64:
			panic(unsupportedf("symbolic int to float"))
		}
		return ex.mkval(kd, ex.ts.Resize(xv.t, wd, ss))
	case symStr:
		if isByteSlice(tDst) {
			r := make([]value, len(xv))
			copy(r, xv)
			return r
		}
		if k, ok := basicKindOf(tDst); ok && k == types.String {
			return x
		}
		panic(unsupportedf("conversion of symbolic string to %s", tDst))
	case []value:
		if isByteSlice(tSrc) {
			if k, ok := basicKindOf(tDst); ok && k == types.String {
				return normStr(xv)
			}
		}
		if hasSymSlice(xv) {
			panic(unsupportedf("conversion of symbolic slice %s to %s", tSrc, tDst))
		}
	}
	return convConcrete(tDst, tSrc, x)
}

func hasSymSlice(s []value) bool {
	for _, e := range s {
		if hasSym(e) {
			return true
		}
	}
	return false
}

// ---------------------------------------------------------------------
// slices, maps, type assertions

func (ex *Exec) bound(fr *frame, v value, def, lo, hi int, what string) int {
	if v == nil {
		return def
	}
	if s, ok := v.(sym); ok {
		x, in := ex.concretize(s, int64(lo), int64(hi))
		if !in {
			fr.rtPanic("slice", "slice bounds out of range [%s symbolic, allowed %d..%d]", what, lo, hi)
		}
		return int(x)
	}
	i := asInt64(v)
	if i < int64(lo) || i > int64(hi) {
		fr.rtPanic("slice", "slice bounds out of range [%s %d, allowed %d..%d]", what, i, lo, hi)
	}
	return int(i)
}

// slice returns x[lo:hi:max].  Any of lo, hi and max may be nil.
func (ex *Exec) slice(fr *frame, instr *ssa.Slice, x, lo, hi, max value) value {
	var Len, Cap int
	switch x := x.(type) {
	case string:
		Len, Cap = len(x), len(x)
	case symStr:
		Len, Cap = len(x), len(x)
	case []value:
		Len, Cap = len(x), cap(x)
	case *value: // *array
		if x == nil {
			fr.rtPanic("nil", "nil pointer dereference (slice of array pointer)")
		}
		a := (*x).(array)
		Len, Cap = len(a), cap(a)
	default:
		panic(engineError{fmt.Sprintf("slice: unexpected X type: %T", x)})
	}
	m := ex.bound(fr, max, Cap, 0, Cap, "max")
	hdef := Len
	h := ex.bound(fr, hi, hdef, 0, m, "high")
	l := ex.bound(fr, lo, 0, 0, h, "low")
	switch x := x.(type) {
	case string:
		return x[l:h]
	case symStr:
		return normStr(x[l:h])
	case []value:
		if x == nil && l == 0 && h == 0 {
			return []value(nil)
		}
		return x[l:h:m]
	case *value:
		a := (*x).(array)
		return []value(a)[l:h:m]
	}
	panic("unreachable")
}

func (ex *Exec) lookup(fr *frame, instr *ssa.Lookup, x, idx value) value {
	switch x := x.(type) {
	case *omap:
		if hasSym(idx) {
			panic(engineError{"symbolic map key"})
		}
		v, ok := x.lookup(idx)
		if !ok {
			v = zero(instr.X.Type().Underlying().(*types.Map).Elem())
		}
		if instr.CommaOk {
			v = tuple{copyVal(v), ok}
		} else {
			v = copyVal(v)
		}
		return v
	case string:
		return x[ex.concretizeIndex(fr, idx, len(x))]
	case symStr:
		return x[ex.concretizeIndex(fr, idx, len(x))]
	}
	panic(engineError{fmt.Sprintf("unexpected x type in Lookup: %T", x)})
}

func (ex *Exec) typeAssert(fr *frame, instr *ssa.TypeAssert, itf iface) value {
	var v value
	err := ""
	if itf.t == nil {
		err = fmt.Sprintf("interface conversion: interface is nil, not %s", instr.AssertedType)
	} else if idst, ok := instr.AssertedType.Underlying().(*types.Interface); ok {
		v = itf
		if meth, _ := types.MissingMethod(itf.t, idst, true); meth != nil {
			err = fmt.Sprintf("interface conversion: %v is not %v: missing method %s", itf.t, idst, meth.Name())
		}
	} else if types.Identical(itf.t, instr.AssertedType) {
		v = itf.v // extract value
	} else {
		err = fmt.Sprintf("interface conversion: interface is %s, not %s", itf.t, instr.AssertedType)
	}
	if err != "" {
		if !instr.CommaOk {
			fr.rtPanic("assert", "%s", err)
		}
		return tuple{zero(instr.AssertedType), false}
	}
	if instr.CommaOk {
		return tuple{v, true}
	}
	return v
}

func (ex *Exec) rangeIter(x value, t types.Type) iter {
	switch x := x.(type) {
	case *omap:
		if x == nil {
			return &mapIter{}
		}
		return &mapIter{keys: append([]value{}, x.keys...), vals: append([]value{}, x.vals...)}
	case string:
		return &stringIter{Reader: strings.NewReader(x)}
	}
	panic(engineError{fmt.Sprintf("cannot range over %T", x)})
}

// callBuiltin interprets a call to builtin fn with arguments args.
func (ex *Exec) callBuiltin(caller *frame, callpos token.Pos, fn *ssa.Builtin, args []value) value {
	switch fn.Name() {
	case "append":
		if len(args) == 1 {
			return args[0]
		}
		dst := args[0].([]value)
		var add []value
		if isStr(args[1]) {
			// append([]byte, ...string) []byte
			add = strBytes(args[1])
		} else {
			add = args[1].([]value)
		}
		if ex.frozen != nil || ex.hooks != nil {
			if len(dst)+len(add) <= cap(dst) {
				full := dst[:cap(dst)]
				for i := len(dst); i < len(dst)+len(add); i++ {
					ex.noteWrite(caller, &full[i])
				}
			}
		}
		return append(dst, add...)

	case "copy": // copy([]T, []T) int or copy([]byte, string) int
		src := args[1]
		if isStr(src) {
			src = strBytes(src)
		}
		dstc := args[0].([]value)
		if ex.frozen != nil || ex.hooks != nil {
			n := len(dstc)
			if len(src.([]value)) < n {
				n = len(src.([]value))
			}
			for i := 0; i < n; i++ {
				ex.noteWrite(caller, &dstc[i])
			}
		}
		return copy(dstc, src.([]value))

	case "delete":
		m := args[0].(*omap)
		if hasSym(args[1]) {
			panic(engineError{"symbolic map key"})
		}
		if m != nil {
			ex.noteWrite(caller, m)
			m.delete(args[1])
		}
		return nil

	case "print", "println":
		return nil

	case "len":
		switch x := args[0].(type) {
		case string:
			return len(x)
		case symStr:
			return len(x)
		case array:
			return len(x)
		case *value:
			return len((*x).(array))
		case []value:
			return len(x)
		case *omap:
			return x.len()
		default:
			panic(engineError{fmt.Sprintf("len: illegal operand: %T", x)})
		}

	case "cap":
		switch x := args[0].(type) {
		case array:
			return cap(x)
		case *value:
			return cap((*x).(array))
		case []value:
			return cap(x)
		default:
			panic(engineError{fmt.Sprintf("cap: illegal operand: %T", x)})
		}

	case "min":
		return foldLeft(min, args)
	case "max":
		return foldLeft(max, args)

	case "panic":
		panic(targetPanic{v: args[0], where: caller.siteKey() + " [" + caller.where() + "]"})

	case "recover":
		return doRecover(caller)

	case "ssa:wrapnilchk":
		recv := args[0]
		if recv.(*value) == nil {
			caller.rtPanic("nil", "value method %v.%v called using nil pointer", args[1], args[2])
		}
		return recv

	case "ssa:deferstack":
		return &caller.defers
	}
	panic(engineError{"unknown built-in: " + fn.Name()})
}

// equalsConcreteRT is equalsConcrete with Go's run-time panic for
// uncomparable dynamic types.
func (ex *Exec) equalsConcreteRT(t types.Type, x, y value) (res bool) {
	defer func() {
		if r := recover(); r != nil {
			if u, ok := r.(uncomparable); ok {
				where := ""
				if ex.curFrame != nil {
					where = ex.curFrame.siteKey() + " [" + ex.curFrame.where() + "]"
				}
				panic(runtimePanic{kind: "uncomparable", msg: "comparing uncomparable type " + u.t.String(), where: where})
			}
			panic(r)
		}
	}()
	return equalsConcrete(t, x, y)
}
