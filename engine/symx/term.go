package symx

// SMT terms: a small hash-consed DAG over Bool and fixed-width bit-vectors,
// with constant folding.  Everything the engine sends to the solver is built
// here and printed as SMT-LIB2 (QF_BV fragment; no set-logic is emitted).

import (
	"fmt"
	"strconv"
	"strings"
)

// Term is a node of the DAG. w==0 means Bool, otherwise a bit-vector width.
type Term struct {
	op   string // "const","var","not","and","or","=>","=","ite", bv ops, "extract","zext","sext"
	args []*Term
	w    int
	val  uint64 // const value (bool: 0/1)
	name string // var name
	hi   int    // extract hi / ext amount
	lo   int
	id   int
}

// TermStore hash-conses terms.  One store per explored case.
type TermStore struct {
	tab  map[string]*Term
	next int
	vars []*Term
}

func NewTermStore() *TermStore {
	return &TermStore{tab: make(map[string]*Term)}
}

func mask(w int) uint64 {
	if w >= 64 {
		return ^uint64(0)
	}
	return (uint64(1) << uint(w)) - 1
}

func (s *TermStore) intern(t *Term) *Term {
	var b strings.Builder
	b.WriteString(t.op)
	b.WriteByte('|')
	b.WriteString(strconv.Itoa(t.w))
	b.WriteByte('|')
	switch t.op {
	case "const":
		b.WriteString(strconv.FormatUint(t.val, 16))
	case "var":
		b.WriteString(t.name)
	case "extract", "zext", "sext":
		b.WriteString(strconv.Itoa(t.hi))
		b.WriteByte(':')
		b.WriteString(strconv.Itoa(t.lo))
	}
	for _, a := range t.args {
		b.WriteByte(',')
		b.WriteString(strconv.Itoa(a.id))
	}
	k := b.String()
	if e, ok := s.tab[k]; ok {
		return e
	}
	s.next++
	t.id = s.next
	s.tab[k] = t
	return t
}

func (s *TermStore) Const(w int, v uint64) *Term {
	return s.intern(&Term{op: "const", w: w, val: v & mask(w)})
}

func (s *TermStore) Bool(b bool) *Term {
	if b {
		return s.intern(&Term{op: "const", w: 0, val: 1})
	}
	return s.intern(&Term{op: "const", w: 0, val: 0})
}

func (s *TermStore) Var(name string, w int) *Term {
	t := s.intern(&Term{op: "var", w: w, name: name})
	return t
}

func (t *Term) IsConst() bool { return t.op == "const" }
func (t *Term) IsTrue() bool  { return t.op == "const" && t.w == 0 && t.val == 1 }
func (t *Term) IsFalse() bool { return t.op == "const" && t.w == 0 && t.val == 0 }

func signExt(v uint64, w int) int64 {
	if w >= 64 {
		return int64(v)
	}
	sh := uint(64 - w)
	return int64(v<<sh) >> sh
}

func (s *TermStore) Not(a *Term) *Term {
	if a.IsConst() {
		return s.Bool(a.val == 0)
	}
	if a.op == "not" {
		return a.args[0]
	}
	return s.intern(&Term{op: "not", w: 0, args: []*Term{a}})
}

func (s *TermStore) And(a, b *Term) *Term {
	if a.IsFalse() || b.IsFalse() {
		return s.Bool(false)
	}
	if a.IsTrue() {
		return b
	}
	if b.IsTrue() {
		return a
	}
	if a == b {
		return a
	}
	return s.intern(&Term{op: "and", w: 0, args: []*Term{a, b}})
}

func (s *TermStore) Or(a, b *Term) *Term {
	if a.IsTrue() || b.IsTrue() {
		return s.Bool(true)
	}
	if a.IsFalse() {
		return b
	}
	if b.IsFalse() {
		return a
	}
	if a == b {
		return a
	}
	return s.intern(&Term{op: "or", w: 0, args: []*Term{a, b}})
}

func (s *TermStore) Eq(a, b *Term) *Term {
	if a.w != b.w {
		panic(fmt.Sprintf("term: Eq width mismatch %d vs %d", a.w, b.w))
	}
	if a == b {
		return s.Bool(true)
	}
	if a.IsConst() && b.IsConst() {
		return s.Bool(a.val == b.val)
	}
	if a.w == 0 {
		// boolean equality with constants
		if a.IsConst() {
			a, b = b, a
		}
		if b.IsTrue() {
			return a
		}
		if b.IsFalse() {
			return s.Not(a)
		}
	}
	if a.id > b.id {
		a, b = b, a
	}
	return s.intern(&Term{op: "=", w: 0, args: []*Term{a, b}})
}

func (s *TermStore) Ite(c, a, b *Term) *Term {
	if c.IsTrue() {
		return a
	}
	if c.IsFalse() {
		return b
	}
	if a == b {
		return a
	}
	if a.w == 0 {
		if a.IsTrue() && b.IsFalse() {
			return c
		}
		if a.IsFalse() && b.IsTrue() {
			return s.Not(c)
		}
	}
	return s.intern(&Term{op: "ite", w: a.w, args: []*Term{c, a, b}})
}

// BV builds a binary bit-vector operation (result width = operand width).
func (s *TermStore) BV(op string, a, b *Term) *Term {
	if a.w != b.w || a.w == 0 {
		panic(fmt.Sprintf("term: BV %s width mismatch %d vs %d", op, a.w, b.w))
	}
	w := a.w
	if a.IsConst() && b.IsConst() {
		if v, ok := foldBV(op, a.val, b.val, w); ok {
			return s.Const(w, v)
		}
	}
	// cheap identities
	switch op {
	case "bvadd":
		if a.IsConst() && a.val == 0 {
			return b
		}
		if b.IsConst() && b.val == 0 {
			return a
		}
	case "bvsub":
		if b.IsConst() && b.val == 0 {
			return a
		}
		if a == b {
			return s.Const(w, 0)
		}
	case "bvand":
		if (a.IsConst() && a.val == 0) || (b.IsConst() && b.val == 0) {
			return s.Const(w, 0)
		}
		if a.IsConst() && a.val == mask(w) {
			return b
		}
		if b.IsConst() && b.val == mask(w) {
			return a
		}
		if a == b {
			return a
		}
	case "bvor":
		if a.IsConst() && a.val == 0 {
			return b
		}
		if b.IsConst() && b.val == 0 {
			return a
		}
		if a == b {
			return a
		}
	case "bvxor":
		if a.IsConst() && a.val == 0 {
			return b
		}
		if b.IsConst() && b.val == 0 {
			return a
		}
		if a == b {
			return s.Const(w, 0)
		}
	case "bvmul":
		if a.IsConst() && a.val == 1 {
			return b
		}
		if b.IsConst() && b.val == 1 {
			return a
		}
		if (a.IsConst() && a.val == 0) || (b.IsConst() && b.val == 0) {
			return s.Const(w, 0)
		}
	case "bvshl", "bvlshr", "bvashr":
		if b.IsConst() && b.val == 0 {
			return a
		}
	}
	return s.intern(&Term{op: op, w: w, args: []*Term{a, b}})
}

func foldBV(op string, x, y uint64, w int) (uint64, bool) {
	m := mask(w)
	switch op {
	case "bvadd":
		return (x + y) & m, true
	case "bvsub":
		return (x - y) & m, true
	case "bvmul":
		return (x * y) & m, true
	case "bvand":
		return x & y, true
	case "bvor":
		return x | y, true
	case "bvxor":
		return x ^ y, true
	case "bvshl":
		if y >= uint64(w) {
			return 0, true
		}
		return (x << y) & m, true
	case "bvlshr":
		if y >= uint64(w) {
			return 0, true
		}
		return x >> y, true
	case "bvashr":
		sx := signExt(x, w)
		if y >= uint64(w) {
			y = uint64(w - 1)
		}
		return uint64(sx>>y) & m, true
	case "bvudiv":
		if y == 0 {
			return m, true
		}
		return x / y, true
	case "bvurem":
		if y == 0 {
			return x, true
		}
		return x % y, true
	case "bvsdiv":
		sx, sy := signExt(x, w), signExt(y, w)
		if sy == 0 {
			if sx >= 0 {
				return m, true
			}
			return 1, true
		}
		if sy == -1 {
			return uint64(-sx) & m, true
		}
		return uint64(sx/sy) & m, true
	case "bvsrem":
		sx, sy := signExt(x, w), signExt(y, w)
		if sy == 0 {
			return x, true
		}
		if sy == -1 {
			return 0, true
		}
		return uint64(sx%sy) & m, true
	}
	return 0, false
}

// Cmp builds a bit-vector comparison (bvult, bvule, bvslt, bvsle, ...).
func (s *TermStore) Cmp(op string, a, b *Term) *Term {
	if a.w != b.w || a.w == 0 {
		panic(fmt.Sprintf("term: Cmp %s width mismatch %d vs %d", op, a.w, b.w))
	}
	if a.IsConst() && b.IsConst() {
		w := a.w
		switch op {
		case "bvult":
			return s.Bool(a.val < b.val)
		case "bvule":
			return s.Bool(a.val <= b.val)
		case "bvugt":
			return s.Bool(a.val > b.val)
		case "bvuge":
			return s.Bool(a.val >= b.val)
		case "bvslt":
			return s.Bool(signExt(a.val, w) < signExt(b.val, w))
		case "bvsle":
			return s.Bool(signExt(a.val, w) <= signExt(b.val, w))
		case "bvsgt":
			return s.Bool(signExt(a.val, w) > signExt(b.val, w))
		case "bvsge":
			return s.Bool(signExt(a.val, w) >= signExt(b.val, w))
		}
	}
	if a == b {
		switch op {
		case "bvule", "bvuge", "bvsle", "bvsge":
			return s.Bool(true)
		default:
			return s.Bool(false)
		}
	}
	return s.intern(&Term{op: op, w: 0, args: []*Term{a, b}})
}

func (s *TermStore) BVNot(a *Term) *Term {
	if a.IsConst() {
		return s.Const(a.w, ^a.val)
	}
	return s.intern(&Term{op: "bvnot", w: a.w, args: []*Term{a}})
}

func (s *TermStore) BVNeg(a *Term) *Term {
	if a.IsConst() {
		return s.Const(a.w, -a.val)
	}
	return s.intern(&Term{op: "bvneg", w: a.w, args: []*Term{a}})
}

func (s *TermStore) Extract(a *Term, hi, lo int) *Term {
	if lo == 0 && hi == a.w-1 {
		return a
	}
	if a.IsConst() {
		return s.Const(hi-lo+1, a.val>>uint(lo))
	}
	return s.intern(&Term{op: "extract", w: hi - lo + 1, hi: hi, lo: lo, args: []*Term{a}})
}

func (s *TermStore) ZExt(a *Term, to int) *Term {
	if to == a.w {
		return a
	}
	if a.IsConst() {
		return s.Const(to, a.val)
	}
	return s.intern(&Term{op: "zext", w: to, hi: to - a.w, args: []*Term{a}})
}

func (s *TermStore) SExt(a *Term, to int) *Term {
	if to == a.w {
		return a
	}
	if a.IsConst() {
		return s.Const(to, uint64(signExt(a.val, a.w)))
	}
	return s.intern(&Term{op: "sext", w: to, hi: to - a.w, args: []*Term{a}})
}

// Resize converts a bit-vector between widths following Go's integer
// conversion rules: truncate, or extend according to the signedness of the
// source.
func (s *TermStore) Resize(a *Term, to int, srcSigned bool) *Term {
	switch {
	case to == a.w:
		return a
	case to < a.w:
		return s.Extract(a, to-1, 0)
	case srcSigned:
		return s.SExt(a, to)
	default:
		return s.ZExt(a, to)
	}
}

func sortOf(w int) string {
	if w == 0 {
		return "Bool"
	}
	return "(_ BitVec " + strconv.Itoa(w) + ")"
}

func constLit(w int, v uint64) string {
	if w == 0 {
		if v != 0 {
			return "true"
		}
		return "false"
	}
	if w%4 == 0 {
		return fmt.Sprintf("#x%0*x", w/4, v&mask(w))
	}
	return fmt.Sprintf("(_ bv%d %d)", v&mask(w), w)
}

// ref returns the token by which t is referred to in solver input.
func (t *Term) ref() string {
	switch t.op {
	case "const":
		return constLit(t.w, t.val)
	case "var":
		return t.name
	}
	return "t" + strconv.Itoa(t.id)
}

// body returns the SMT-LIB expression of t over the refs of its children.
func (t *Term) body() string {
	var b strings.Builder
	switch t.op {
	case "const", "var":
		return t.ref()
	case "extract":
		fmt.Fprintf(&b, "((_ extract %d %d) %s)", t.hi, t.lo, t.args[0].ref())
		return b.String()
	case "zext":
		fmt.Fprintf(&b, "((_ zero_extend %d) %s)", t.hi, t.args[0].ref())
		return b.String()
	case "sext":
		fmt.Fprintf(&b, "((_ sign_extend %d) %s)", t.hi, t.args[0].ref())
		return b.String()
	}
	b.WriteByte('(')
	b.WriteString(t.op)
	for _, a := range t.args {
		b.WriteByte(' ')
		b.WriteString(a.ref())
	}
	b.WriteByte(')')
	return b.String()
}

// Eval evaluates t under an assignment of variables (missing variables are 0).
func (t *Term) Eval(m map[string]uint64, memo map[*Term]uint64) uint64 {
	if v, ok := memo[t]; ok {
		return v
	}
	var r uint64
	switch t.op {
	case "const":
		r = t.val
	case "var":
		r = m[t.name] & mask64(t.w)
	case "not":
		r = 1 - t.args[0].Eval(m, memo)
	case "and":
		r = t.args[0].Eval(m, memo) & t.args[1].Eval(m, memo)
	case "or":
		r = t.args[0].Eval(m, memo) | t.args[1].Eval(m, memo)
	case "=":
		if t.args[0].Eval(m, memo) == t.args[1].Eval(m, memo) {
			r = 1
		}
	case "ite":
		if t.args[0].Eval(m, memo) != 0 {
			r = t.args[1].Eval(m, memo)
		} else {
			r = t.args[2].Eval(m, memo)
		}
	case "bvnot":
		r = ^t.args[0].Eval(m, memo) & mask(t.w)
	case "bvneg":
		r = -t.args[0].Eval(m, memo) & mask(t.w)
	case "extract":
		r = (t.args[0].Eval(m, memo) >> uint(t.lo)) & mask(t.w)
	case "zext":
		r = t.args[0].Eval(m, memo)
	case "sext":
		r = uint64(signExt(t.args[0].Eval(m, memo), t.args[0].w)) & mask(t.w)
	case "bvult", "bvule", "bvugt", "bvuge", "bvslt", "bvsle", "bvsgt", "bvsge":
		x, y := t.args[0].Eval(m, memo), t.args[1].Eval(m, memo)
		w := t.args[0].w
		var b bool
		switch t.op {
		case "bvult":
			b = x < y
		case "bvule":
			b = x <= y
		case "bvugt":
			b = x > y
		case "bvuge":
			b = x >= y
		case "bvslt":
			b = signExt(x, w) < signExt(y, w)
		case "bvsle":
			b = signExt(x, w) <= signExt(y, w)
		case "bvsgt":
			b = signExt(x, w) > signExt(y, w)
		case "bvsge":
			b = signExt(x, w) >= signExt(y, w)
		}
		if b {
			r = 1
		}
	default:
		x, y := t.args[0].Eval(m, memo), t.args[1].Eval(m, memo)
		v, ok := foldBV(t.op, x, y, t.w)
		if !ok {
			panic("term: cannot evaluate " + t.op)
		}
		r = v
	}
	memo[t] = r
	return r
}

func mask64(w int) uint64 {
	if w == 0 {
		return 1
	}
	return mask(w)
}

// String renders a term fully (for diagnostics and samples).
func (t *Term) String() string {
	switch t.op {
	case "const", "var":
		return t.ref()
	}
	var b strings.Builder
	switch t.op {
	case "extract":
		fmt.Fprintf(&b, "((_ extract %d %d) %s)", t.hi, t.lo, t.args[0])
		return b.String()
	case "zext":
		fmt.Fprintf(&b, "((_ zero_extend %d) %s)", t.hi, t.args[0])
		return b.String()
	case "sext":
		fmt.Fprintf(&b, "((_ sign_extend %d) %s)", t.hi, t.args[0])
		return b.String()
	}
	b.WriteByte('(')
	b.WriteString(t.op)
	for _, a := range t.args {
		b.WriteByte(' ')
		b.WriteString(a.String())
	}
	b.WriteByte(')')
	return b.String()
}
