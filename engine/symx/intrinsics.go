package symx

// Environment model: every function outside the package under test is either
// bridged to the real implementation (concrete, pure arguments), modelled
// symbolically here, or stubbed.  Anything not listed makes the case
// inconclusive ("no model for external function").

import (
	"fmt"
	"go/types"
	"strconv"
	"strings"
	"unicode"
	"unicode/utf8"
)

type intrinsic func(fr *frame, args []value) value

var intrinsics = map[string]intrinsic{}

// IntrinsicNames lists the modelled externals (for evidence).
func IntrinsicNames() []string {
	var r []string
	for k := range intrinsics {
		r = append(r, k)
	}
	return r
}

func concreteStr(fr *frame, v value, what string) string {
	switch v := v.(type) {
	case string:
		return v
	case symStr:
		panic(engineError{"symbolic string passed to " + what + " (no symbolic model)"})
	}
	panic(engineError{fmt.Sprintf("%s: expected string, got %T", what, v)})
}

func concreteInt(fr *frame, v value, what string) int64 {
	if _, ok := v.(sym); ok {
		panic(engineError{"symbolic integer passed to " + what + " (no symbolic model)"})
	}
	return asInt64(v)
}

func strSlice(v value) []value { return v.([]value) }

func goStrings(fr *frame, v value, what string) []string {
	var r []string
	for _, e := range strSlice(v) {
		r = append(r, concreteStr(fr, e, what))
	}
	return r
}

func toValSlice(ss []string) []value {
	r := make([]value, len(ss))
	for i, s := range ss {
		r[i] = s
	}
	return r
}

// isSpaceASCII is the blank class strings.TrimSpace uses for ASCII bytes.
func isSpaceASCII(b byte) bool {
	switch b {
	case '\t', '\n', '\v', '\f', '\r', ' ':
		return true
	}
	return false
}

// byteIsASCIISpace forks on whether a symbolic byte is an ASCII blank; bytes
// >= 0x80 would need UTF-8 decoding of symbolic data and are not modelled.
func (ex *Exec) byteIsSpace(fr *frame, b value, what string) bool {
	switch b := b.(type) {
	case uint8:
		if b >= 0x80 {
			panic(engineError{what + ": non-ASCII byte next to symbolic data"})
		}
		return isSpaceASCII(b)
	case sym:
		ts := ex.ts
		if ex.branch(ts.Cmp("bvuge", b.t, ts.Const(8, 0x80))) {
			panic(engineError{what + ": symbolic byte may be >= 0x80 (assume ASCII in the harness)"})
		}
		sp := ts.Bool(false)
		for _, c := range []byte{'\t', '\n', '\v', '\f', '\r', ' '} {
			sp = ts.Or(sp, ts.Eq(b.t, ts.Const(8, uint64(c))))
		}
		return ex.branch(sp)
	}
	panic(engineError{fmt.Sprintf("%s: unexpected byte %T", what, b)})
}

// asciiCase maps one byte to upper (up=true) or lower case, ASCII only.
func (ex *Exec) asciiCase(fr *frame, b value, up bool, what string) value {
	switch b := b.(type) {
	case uint8:
		if b >= 0x80 {
			panic(engineError{what + ": non-ASCII byte next to symbolic data"})
		}
		if up {
			return uint8(unicode.ToUpper(rune(b)))
		}
		return uint8(unicode.ToLower(rune(b)))
	case sym:
		ts := ex.ts
		if ex.branch(ts.Cmp("bvuge", b.t, ts.Const(8, 0x80))) {
			panic(engineError{what + ": symbolic byte may be >= 0x80 (assume ASCII in the harness)"})
		}
		var lo, hi byte = 'a', 'z'
		if !up {
			lo, hi = 'A', 'Z'
		}
		in := ts.And(ts.Cmp("bvuge", b.t, ts.Const(8, uint64(lo))), ts.Cmp("bvule", b.t, ts.Const(8, uint64(hi))))
		return ex.mkval(types.Uint8, ts.Ite(in, ts.BV("bvxor", b.t, ts.Const(8, 0x20)), b.t))
	}
	panic(engineError{fmt.Sprintf("%s: unexpected byte %T", what, b)})
}

func builderBuf(fr *frame, p value) (structure, []value) {
	ptr := p.(*value)
	if ptr == nil {
		fr.rtPanic("nil", "nil *strings.Builder")
	}
	st := (*ptr).(structure)
	buf, _ := st[1].([]value)
	return st, buf
}

func init() {
	in := intrinsics

	// ---- strings.Builder (buffer kept in the struct's buf field as byte values)
	in["(*strings.Builder).WriteString"] = func(fr *frame, a []value) value {
		st, buf := builderBuf(fr, a[0])
		st[1] = append(buf, strBytes(a[1])...)
		return tuple{strLen(a[1]), iface{}}
	}
	in["(*strings.Builder).WriteByte"] = func(fr *frame, a []value) value {
		st, buf := builderBuf(fr, a[0])
		st[1] = append(buf, a[1])
		return iface{}
	}
	in["(*strings.Builder).WriteRune"] = func(fr *frame, a []value) value {
		st, buf := builderBuf(fr, a[0])
		var enc []value
		switch r := a[1].(type) {
		case int32:
			enc = strBytes(string(r))
		case sym:
			enc = fr.ex.encodeRune(r)
		}
		st[1] = append(buf, enc...)
		return tuple{len(enc), iface{}}
	}
	in["(*strings.Builder).String"] = func(fr *frame, a []value) value {
		_, buf := builderBuf(fr, a[0])
		return normStr(buf)
	}
	in["(*strings.Builder).Len"] = func(fr *frame, a []value) value {
		_, buf := builderBuf(fr, a[0])
		return len(buf)
	}
	in["(*strings.Builder).Reset"] = func(fr *frame, a []value) value {
		st, _ := builderBuf(fr, a[0])
		st[1] = []value(nil)
		return nil
	}
	in["(*strings.Builder).Grow"] = func(fr *frame, a []value) value { return nil }

	// ---- strings
	in["strings.Join"] = func(fr *frame, a []value) value {
		elems := strSlice(a[0])
		sep := strBytes(a[1])
		var out []value
		for i, e := range elems {
			if i > 0 {
				out = append(out, sep...)
			}
			out = append(out, strBytes(e)...)
		}
		return normStr(out)
	}
	in["strings.TrimSpace"] = func(fr *frame, a []value) value {
		if s, ok := a[0].(string); ok {
			return strings.TrimSpace(s)
		}
		b := strBytes(a[0])
		lo, hi := 0, len(b)
		for lo < hi {
			w := fr.ex.spaceWidth(b[lo:hi], false)
			if w == 0 {
				break
			}
			lo += w
		}
		for hi > lo {
			w := fr.ex.spaceWidth(b[lo:hi], true)
			if w == 0 {
				break
			}
			hi -= w
		}
		return normStr(b[lo:hi])
	}
	// strings.Trim / TrimLeft / TrimRight with a concrete ASCII cutset
	inCut := func(fr *frame, b value, cut string, what string) bool {
		switch b := b.(type) {
		case uint8:
			return strings.IndexByte(cut, b) >= 0
		case sym:
			ts := fr.ex.ts
			hit := ts.Bool(false)
			for i := 0; i < len(cut); i++ {
				hit = ts.Or(hit, ts.Eq(b.t, ts.Const(8, uint64(cut[i]))))
			}
			return fr.ex.branch(hit)
		}
		panic(engineError{fmt.Sprintf("%s: unexpected byte %T", what, b)})
	}
	trimmer := func(name string, left, right bool, native func(string, string) string) intrinsic {
		return func(fr *frame, a []value) value {
			cut := concreteStr(fr, a[1], name)
			if s, ok := a[0].(string); ok {
				return native(s, cut)
			}
			for i := 0; i < len(cut); i++ {
				if cut[i] >= 0x80 {
					panic(engineError{name + ": non-ASCII cutset with symbolic data"})
				}
			}
			b := strBytes(a[0])
			lo, hi := 0, len(b)
			for left && lo < hi && inCut(fr, b[lo], cut, name) {
				lo++
			}
			for right && hi > lo && inCut(fr, b[hi-1], cut, name) {
				hi--
			}
			return normStr(b[lo:hi])
		}
	}
	in["strings.Trim"] = trimmer("strings.Trim", true, true, strings.Trim)
	in["strings.TrimLeft"] = trimmer("strings.TrimLeft", true, false, strings.TrimLeft)
	in["strings.TrimRight"] = trimmer("strings.TrimRight", false, true, strings.TrimRight)

	caseMap := func(up bool, name string, native func(string) string) intrinsic {
		return func(fr *frame, a []value) value {
			if s, ok := a[0].(string); ok {
				return native(s)
			}
			b := strBytes(a[0])
			out := make([]value, len(b))
			for i := range b {
				out[i] = fr.ex.asciiCase(fr, b[i], up, name)
			}
			return normStr(out)
		}
	}
	in["strings.ToUpper"] = caseMap(true, "strings.ToUpper", strings.ToUpper)
	in["strings.ToLower"] = caseMap(false, "strings.ToLower", strings.ToLower)
	in["strings.EqualFold"] = func(fr *frame, a []value) value {
		x, xok := a[0].(string)
		y, yok := a[1].(string)
		if xok && yok {
			return strings.EqualFold(x, y)
		}
		if strLen(a[0]) != strLen(a[1]) {
			// ASCII-only model: folding never changes the length
			for _, b := range append(strBytes(a[0]), strBytes(a[1])...) {
				fr.ex.asciiCase(fr, b, true, "strings.EqualFold")
			}
			return false
		}
		xb, yb := strBytes(a[0]), strBytes(a[1])
		acc := fr.ex.ts.Bool(true)
		for i := range xb {
			u := fr.ex.asciiCase(fr, xb[i], true, "strings.EqualFold")
			v := fr.ex.asciiCase(fr, yb[i], true, "strings.EqualFold")
			acc = fr.ex.ts.And(acc, fr.ex.ts.Eq(fr.ex.term(u), fr.ex.term(v)))
		}
		return fr.ex.mkval(types.Bool, acc)
	}
	in["strings.Compare"] = func(fr *frame, a []value) value {
		x, xok := a[0].(string)
		y, yok := a[1].(string)
		if xok && yok {
			return strings.Compare(x, y)
		}
		ex := fr.ex
		if ex.branch(ex.term(ex.strEq(a[0], a[1]))) {
			return 0
		}
		if ex.branch(ex.strLess(a[0], a[1])) {
			return -1
		}
		return 1
	}
	in["strings.ReplaceAll"] = func(fr *frame, a []value) value {
		return strings.ReplaceAll(concreteStr(fr, a[0], "strings.ReplaceAll"), concreteStr(fr, a[1], "strings.ReplaceAll"), concreteStr(fr, a[2], "strings.ReplaceAll"))
	}
	in["strings.Split"] = func(fr *frame, a []value) value {
		return toValSlice(strings.Split(concreteStr(fr, a[0], "strings.Split"), concreteStr(fr, a[1], "strings.Split")))
	}
	in["strings.Contains"] = func(fr *frame, a []value) value {
		return strings.Contains(concreteStr(fr, a[0], "strings.Contains"), concreteStr(fr, a[1], "strings.Contains"))
	}
	in["strings.HasPrefix"] = func(fr *frame, a []value) value {
		return strings.HasPrefix(concreteStr(fr, a[0], "strings.HasPrefix"), concreteStr(fr, a[1], "strings.HasPrefix"))
	}
	in["strings.HasSuffix"] = func(fr *frame, a []value) value {
		return strings.HasSuffix(concreteStr(fr, a[0], "strings.HasSuffix"), concreteStr(fr, a[1], "strings.HasSuffix"))
	}
	in["strings.Repeat"] = func(fr *frame, a []value) value {
		return strings.Repeat(concreteStr(fr, a[0], "strings.Repeat"), int(concreteInt(fr, a[1], "strings.Repeat")))
	}
	in["strings.Index"] = func(fr *frame, a []value) value {
		return strings.Index(concreteStr(fr, a[0], "strings.Index"), concreteStr(fr, a[1], "strings.Index"))
	}
	in["strings.Fields"] = func(fr *frame, a []value) value {
		return toValSlice(strings.Fields(concreteStr(fr, a[0], "strings.Fields")))
	}

	// ---- strconv
	fmtInt := func(fr *frame, v value, base int, what string) value {
		if s, ok := v.(sym); ok {
			// symbolic integers are rendered only within a small window; the
			// harness states the window with verifAssume.
			x, in := fr.ex.concretize(s, -16, 128)
			if !in {
				panic(engineError{what + ": symbolic integer outside the rendering window [-16,128] (assume it in the harness)"})
			}
			return strconv.FormatInt(x, base)
		}
		switch x := v.(type) {
		case uint64:
			return strconv.FormatUint(x, base)
		case uint:
			return strconv.FormatUint(uint64(x), base)
		}
		return strconv.FormatInt(asInt64(v), base)
	}
	in["strconv.Itoa"] = func(fr *frame, a []value) value { return fmtInt(fr, a[0], 10, "strconv.Itoa") }
	in["strconv.FormatInt"] = func(fr *frame, a []value) value {
		return fmtInt(fr, a[0], int(concreteInt(fr, a[1], "strconv.FormatInt")), "strconv.FormatInt")
	}
	in["strconv.FormatUint"] = func(fr *frame, a []value) value {
		return fmtInt(fr, a[0], int(concreteInt(fr, a[1], "strconv.FormatUint")), "strconv.FormatUint")
	}
	in["strconv.FormatFloat"] = func(fr *frame, a []value) value {
		return strconv.FormatFloat(a[0].(float64), byte(asInt64(a[1])), int(asInt64(a[2])), int(asInt64(a[3])))
	}
	// strconv.Append*: format, then append byte-wise with the write notes of
	// the append builtin (a caller-provided buffer may be shared memory)
	appendText := func(fr *frame, dst value, text string) value {
		d := dst.([]value)
		add := strBytes(text)
		if fr.ex.frozen != nil || fr.ex.hooks != nil {
			if len(d)+len(add) <= cap(d) {
				full := d[:cap(d)]
				for i := len(d); i < len(d)+len(add); i++ {
					fr.ex.noteWrite(fr, &full[i])
				}
			}
		}
		return append(d, add...)
	}
	in["strconv.AppendFloat"] = func(fr *frame, a []value) value {
		return appendText(fr, a[0], strconv.FormatFloat(a[1].(float64), byte(asInt64(a[2])), int(asInt64(a[3])), int(asInt64(a[4]))))
	}
	in["strconv.AppendInt"] = func(fr *frame, a []value) value {
		return appendText(fr, a[0], strconv.FormatInt(concreteInt(fr, a[1], "strconv.AppendInt"), int(concreteInt(fr, a[2], "strconv.AppendInt"))))
	}
	in["strconv.AppendUint"] = func(fr *frame, a []value) value {
		return appendText(fr, a[0], strconv.FormatUint(uint64(concreteInt(fr, a[1], "strconv.AppendUint")), int(concreteInt(fr, a[2], "strconv.AppendUint"))))
	}
	in["strconv.AppendBool"] = func(fr *frame, a []value) value {
		b, _ := a[1].(bool)
		return appendText(fr, a[0], strconv.FormatBool(b))
	}
	in["strconv.AppendQuote"] = func(fr *frame, a []value) value {
		return appendText(fr, a[0], strconv.Quote(concreteStr(fr, a[1], "strconv.AppendQuote")))
	}
	in["strconv.FormatComplex"] = func(fr *frame, a []value) value {
		return strconv.FormatComplex(a[0].(complex128), byte(asInt64(a[1])), int(asInt64(a[2])), int(asInt64(a[3])))
	}
	in["strconv.Quote"] = func(fr *frame, a []value) value { return strconv.Quote(concreteStr(fr, a[0], "strconv.Quote")) }
	in["strconv.Unquote"] = func(fr *frame, a []value) value {
		s, err := strconv.Unquote(concreteStr(fr, a[0], "strconv.Unquote"))
		if err != nil {
			return tuple{"", fr.ex.newError(err.Error())}
		}
		return tuple{s, iface{}}
	}
	in["strconv.Atoi"] = func(fr *frame, a []value) value {
		n, err := strconv.Atoi(concreteStr(fr, a[0], "strconv.Atoi"))
		if err != nil {
			return tuple{0, fr.ex.newError(err.Error())}
		}
		return tuple{n, iface{}}
	}

	// ---- unicode
	uni := func(name string, f func(rune) bool, lo, hi byte) intrinsic {
		return func(fr *frame, a []value) value {
			switch r := a[0].(type) {
			case int32:
				return f(r)
			case sym:
				ts := fr.ex.ts
				if fr.ex.branch(ts.Cmp("bvuge", r.t, ts.Const(32, 0x80))) {
					panic(engineError{name + ": symbolic rune may be >= 0x80 (assume ASCII in the harness)"})
				}
				return fr.ex.mkval(types.Bool, ts.And(ts.Cmp("bvuge", r.t, ts.Const(32, uint64(lo))), ts.Cmp("bvule", r.t, ts.Const(32, uint64(hi)))))
			}
			panic(engineError{name + ": bad argument"})
		}
	}
	in["unicode.IsUpper"] = uni("unicode.IsUpper", unicode.IsUpper, 'A', 'Z')
	in["unicode.IsLower"] = uni("unicode.IsLower", unicode.IsLower, 'a', 'z')
	// unicode.IsSpace is a finite set of code points: modelled exactly for
	// every 32-bit rune value.
	in["unicode.IsSpace"] = func(fr *frame, a []value) value {
		switch r := a[0].(type) {
		case int32:
			return unicode.IsSpace(r)
		case sym:
			ts := fr.ex.ts
			in := func(lo, hi uint64) *Term {
				return ts.And(ts.Cmp("bvuge", r.t, ts.Const(32, lo)), ts.Cmp("bvule", r.t, ts.Const(32, hi)))
			}
			sp := in(9, 13)
			for _, c := range []uint64{0x20, 0x85, 0xA0, 0x1680, 0x2028, 0x2029, 0x202f, 0x205f, 0x3000} {
				sp = ts.Or(sp, ts.Eq(r.t, ts.Const(32, c)))
			}
			sp = ts.Or(sp, in(0x2000, 0x200a))
			return fr.ex.mkval(types.Bool, sp)
		}
		panic(engineError{"unicode.IsSpace: bad argument"})
	}
	in["unicode/utf8.RuneCountInString"] = func(fr *frame, a []value) value {
		return utf8.RuneCountInString(concreteStr(fr, a[0], "utf8.RuneCountInString"))
	}

	// ---- errors
	in["errors.New"] = func(fr *frame, a []value) value { return fr.ex.newErrorV(a[0]) }
	in["(*errors.errorString).Error"] = func(fr *frame, a []value) value {
		p := a[0].(*value)
		if p == nil {
			fr.rtPanic("nil", "nil *errors.errorString")
		}
		return (*p).(structure)[0]
	}

	// ---- fmt (only what the library reaches: %p / %d / %T formatting of concrete values)
	in["fmt.Sprintf"] = func(fr *frame, a []value) value {
		return fr.ex.sprintf(fr, concreteStr(fr, a[0], "fmt.Sprintf"), strSlice(a[1]))
	}
	in["fmt.Printf"] = func(fr *frame, a []value) value {
		s := fr.ex.sprintf(fr, concreteStr(fr, a[0], "fmt.Printf"), strSlice(a[1]))
		fr.ex.stdout.WriteString(s)
		return tuple{len(s), iface{}}
	}
	in["fmt.Println"] = func(fr *frame, a []value) value {
		var parts []string
		for _, v := range strSlice(a[0]) {
			parts = append(parts, fr.ex.sprintf(fr, "%v", []value{v}))
		}
		s := strings.Join(parts, " ") + "\n"
		fr.ex.stdout.WriteString(s)
		return tuple{len(s), iface{}}
	}
	in["fmt.Sprint"] = func(fr *frame, a []value) value {
		var sb strings.Builder
		for _, v := range strSlice(a[0]) {
			sb.WriteString(fr.ex.sprintf(fr, "%v", []value{v}))
		}
		return sb.String()
	}
	in["fmt.Errorf"] = func(fr *frame, a []value) value {
		return fr.ex.newError(fr.ex.sprintf(fr, concreteStr(fr, a[0], "fmt.Errorf"), strSlice(a[1])))
	}

	// ---- sync.Map: an engine-side table per map instance (insertion-ordered,
	// keys compared like interface values); its operations are synchronised
	// by definition and therefore not entered into the write / race logs
	emptyIface := types.NewInterfaceType(nil, nil)
	syncMap := func(fr *frame, recv value) *omap {
		p, _ := recv.(*value)
		if p == nil {
			fr.rtPanic("nil", "nil *sync.Map")
		}
		if fr.ex.syncMaps == nil {
			fr.ex.syncMaps = make(map[*value]*omap)
		}
		m := fr.ex.syncMaps[p]
		if m == nil {
			m = makeMap(emptyIface)
			fr.ex.syncMaps[p] = m
		}
		return m
	}
	in["(*sync.Map).Load"] = func(fr *frame, a []value) value {
		if v, ok := syncMap(fr, a[0]).lookup(a[1]); ok {
			return tuple{v, true}
		}
		return tuple{iface{}, false}
	}
	in["(*sync.Map).Store"] = func(fr *frame, a []value) value {
		syncMap(fr, a[0]).insert(a[1], a[2])
		return nil
	}
	in["(*sync.Map).LoadOrStore"] = func(fr *frame, a []value) value {
		m := syncMap(fr, a[0])
		if v, ok := m.lookup(a[1]); ok {
			return tuple{v, true}
		}
		m.insert(a[1], a[2])
		return tuple{a[2], false}
	}
	in["(*sync.Map).LoadAndDelete"] = func(fr *frame, a []value) value {
		m := syncMap(fr, a[0])
		if v, ok := m.lookup(a[1]); ok {
			m.delete(a[1])
			return tuple{v, true}
		}
		return tuple{iface{}, false}
	}
	in["(*sync.Map).Delete"] = func(fr *frame, a []value) value {
		syncMap(fr, a[0]).delete(a[1])
		return nil
	}
	in["(*sync.Map).Range"] = func(fr *frame, a []value) value {
		m := syncMap(fr, a[0])
		keys := append([]value{}, m.keys...)
		vals := append([]value{}, m.vals...)
		for i := range keys {
			r := fr.ex.call(fr, 0, a[1], []value{keys[i], vals[i]})
			if b, ok := r.(bool); ok && !b {
				break
			}
		}
		return nil
	}

	// ---- sync.Mutex: engine-side lock table
	in["(*sync.Mutex).Lock"] = func(fr *frame, a []value) value {
		fr.ex.mutexLock(fr, a[0].(*value))
		return nil
	}
	in["(*sync.Mutex).Unlock"] = func(fr *frame, a []value) value {
		fr.ex.mutexUnlock(fr, a[0].(*value))
		return nil
	}
	in["(*sync.Mutex).TryLock"] = func(fr *frame, a []value) value {
		m := a[0].(*value)
		ls := fr.ex.lockOf(m)
		if ls.held {
			return false
		}
		ls.held, ls.owner = true, fr.ex.thread
		return true
	}

	// ---- time / rand / log / os / io: opaque stubs
	in["time.Now"] = func(fr *frame, a []value) value {
		t := fr.ex.eng.ext.pkgs["time"].Scope().Lookup("Time").Type()
		return zero(t)
	}
	timeZero := func(fr *frame, a []value) value { return 0 }
	for _, m := range []string{"Year", "Day", "Hour", "Minute", "Second", "Nanosecond"} {
		in["(time.Time)."+m] = timeZero
	}
	in["(time.Time).Month"] = func(fr *frame, a []value) value { return 1 }
	in["math/rand.Int63"] = func(fr *frame, a []value) value {
		fr.ex.randCtr = fr.ex.randCtr*6364136223846793005 + 1442695040888963407
		return int64(uint64(fr.ex.randCtr) >> 1)
	}
	in["log.New"] = func(fr *frame, a []value) value {
		t := fr.ex.eng.ext.pkgs["log"].Scope().Lookup("Logger").Type()
		v := zero(t)
		return &v
	}
	in["(*log.Logger).Writer"] = func(fr *frame, a []value) value { return iface{} }
	in["(*log.Logger).Printf"] = func(fr *frame, a []value) value { return nil }
	in["(*log.Logger).Println"] = func(fr *frame, a []value) value { return nil }
	in["(*log.Logger).Print"] = func(fr *frame, a []value) value { return nil }
	in["(*log.Logger).SetOutput"] = func(fr *frame, a []value) value { return nil }
}

// newError builds an error value like errors.New does.
func (ex *Exec) newError(msg string) value { return ex.newErrorV(msg) }

func (ex *Exec) newErrorV(msg value) value {
	var v value = structure{msg}
	return iface{t: ex.eng.ext.errorString, v: &v}
}

// sprintf supports the verbs the library and its tests use on concrete data.
func (ex *Exec) sprintf(fr *frame, format string, args []value) string {
	var sb strings.Builder
	ai := 0
	for i := 0; i < len(format); i++ {
		c := format[i]
		if c != '%' {
			sb.WriteByte(c)
			continue
		}
		j := i + 1
		for j < len(format) && strings.IndexByte("+-# 0123456789.", format[j]) >= 0 {
			j++
		}
		if j >= len(format) {
			sb.WriteString(format[i:])
			break
		}
		verb := format[j]
		spec := format[i : j+1]
		i = j
		if verb == '%' {
			sb.WriteByte('%')
			continue
		}
		if ai >= len(args) {
			sb.WriteString("%!" + string(verb) + "(MISSING)")
			continue
		}
		arg := args[ai]
		ai++
		sb.WriteString(ex.formatArg(fr, spec, verb, arg))
	}
	return sb.String()
}

func (ex *Exec) formatArg(fr *frame, spec string, verb byte, arg value) string {
	itf, _ := arg.(iface)
	if itf.t == nil {
		if verb == 'T' || verb == 'v' || verb == 's' {
			return "<nil>"
		}
		return "%!" + string(verb) + "(<nil>)"
	}
	switch verb {
	case 'T':
		return types.TypeString(itf.t, func(p *types.Package) string { return p.Name() })
	case 'p':
		return fmt.Sprintf("0xc%09x", ex.objID(itf.v)*16)
	}
	if hasSym(itf.v) {
		panic(engineError{"fmt: symbolic operand for verb %" + string(verb)})
	}
	switch v := itf.v.(type) {
	case bool, int, int8, int16, int32, int64, uint, uint8, uint16, uint32, uint64, uintptr, float32, float64, complex64, complex128, string:
		if verb == 'v' || verb == 's' {
			if s, ok := ex.tryStringer(fr, itf); ok {
				return s
			}
		}
		return fmt.Sprintf(spec, v)
	default:
		if verb == 'v' || verb == 's' {
			if s, ok := ex.tryStringer(fr, itf); ok {
				return s
			}
			return toString(v)
		}
	}
	panic(engineError{"fmt: unsupported verb %" + string(verb) + " for " + itf.t.String()})
}

// tryStringer calls String()/Error() on the value if its type has one.
func (ex *Exec) tryStringer(fr *frame, itf iface) (string, bool) {
	for _, name := range []string{"Error", "String"} {
		ms := ex.eng.Prog.MethodSets.MethodSet(itf.t)
		sel := ms.Lookup(nil, name)
		if sel == nil {
			continue
		}
		sig := sel.Type().(*types.Signature)
		if sig.Params().Len() != 0 || sig.Results().Len() != 1 {
			continue
		}
		fn := ex.eng.Prog.MethodValue(sel)
		if fn == nil {
			continue
		}
		r := ex.call(fr, 0, fn, []value{itf.v})
		if s, ok := r.(string); ok {
			return s, true
		}
		panic(engineError{"fmt: symbolic result of " + name})
	}
	return "", false
}

// objID numbers heap objects in order of first use (for %p and snapshots).
func (ex *Exec) objID(v interface{}) int {
	if ex.objIDs == nil {
		ex.objIDs = make(map[interface{}]int)
	}
	key := v
	switch x := v.(type) {
	case []value:
		if cap(x) == 0 {
			return 0
		}
		key = &x[:1][0]
	case *value, *omap, *closure:
	default:
		return 0
	}
	if id, ok := ex.objIDs[key]; ok {
		return id
	}
	ex.nextObj++
	ex.objIDs[key] = ex.nextObj
	return ex.nextObj
}

// ---- locks

func (ex *Exec) lockOf(m *value) *lockState {
	if ex.locks == nil {
		ex.locks = make(map[*value]*lockState)
	}
	ls := ex.locks[m]
	if ls == nil {
		ls = &lockState{}
		ex.locks[m] = ls
	}
	return ls
}

func (ex *Exec) mutexLock(fr *frame, m *value) {
	if m == nil {
		fr.rtPanic("nil", "nil *sync.Mutex")
	}
	ex.noteWrite(fr, m)
	if ex.hooks != nil {
		ex.hooks.lock(fr, m)
		return
	}
	ls := ex.lockOf(m)
	if ls.held {
		panic(runtimePanic{kind: "deadlock", msg: "sync.Mutex.Lock on a mutex already held by the only goroutine (self-deadlock)", where: fr.siteKey() + " [" + fr.where() + "]"})
	}
	ls.held, ls.owner = true, ex.thread
}

func (ex *Exec) mutexUnlock(fr *frame, m *value) {
	if m == nil {
		fr.rtPanic("nil", "nil *sync.Mutex")
	}
	if ex.hooks != nil {
		ex.hooks.unlock(fr, m)
		return
	}
	ls := ex.lockOf(m)
	if !ls.held {
		panic(runtimePanic{kind: "unlock", msg: "sync: unlock of unlocked mutex", where: fr.siteKey() + " [" + fr.where() + "]"})
	}
	ls.held = false
}

// byteIn decides (forking on symbolic bytes) whether b is one of the given
// values or lies in one of the given inclusive ranges.
func (ex *Exec) byteIn(b value, vals []byte, ranges [][2]byte) bool {
	switch x := b.(type) {
	case uint8:
		for _, v := range vals {
			if x == v {
				return true
			}
		}
		for _, r := range ranges {
			if x >= r[0] && x <= r[1] {
				return true
			}
		}
		return false
	case sym:
		ts := ex.ts
		hit := ts.Bool(false)
		for _, v := range vals {
			hit = ts.Or(hit, ts.Eq(x.t, ts.Const(8, uint64(v))))
		}
		for _, r := range ranges {
			hit = ts.Or(hit, ts.And(ts.Cmp("bvuge", x.t, ts.Const(8, uint64(r[0]))), ts.Cmp("bvule", x.t, ts.Const(8, uint64(r[1])))))
		}
		return ex.branch(hit)
	}
	panic(engineError{fmt.Sprintf("byteIn: unexpected byte %T", b)})
}

// spaceWidth returns the width in bytes of the Unicode white-space rune at
// the start (fromEnd=false) or at the end (fromEnd=true) of b, as
// strings.TrimSpace sees it, or 0.  Works on symbolic bytes by forking.
func (ex *Exec) spaceWidth(b []value, fromEnd bool) int {
	n := len(b)
	if n == 0 {
		return 0
	}
	at := func(k int) value { // k-th byte of the candidate rune
		if fromEnd {
			return nil
		}
		return b[k]
	}
	_ = at
	ascii := []byte{'\t', '\n', '\v', '\f', '\r', ' '}
	var c value
	if fromEnd {
		c = b[n-1]
	} else {
		c = b[0]
	}
	if ex.byteIn(c, nil, [][2]byte{{0, 0x7F}}) {
		if ex.byteIn(c, ascii, nil) {
			return 1
		}
		return 0
	}
	get := func(k, width int) value { // byte k of a width-byte rune at the start / end
		if fromEnd {
			return b[n-width+k]
		}
		return b[k]
	}
	// two-byte spaces: U+0085, U+00A0
	if n >= 2 && ex.byteIn(get(0, 2), []byte{0xC2}, nil) && ex.byteIn(get(1, 2), []byte{0x85, 0xA0}, nil) {
		return 2
	}
	if n >= 3 {
		b0, b1, b2 := get(0, 3), get(1, 3), get(2, 3)
		// U+1680
		if ex.byteIn(b0, []byte{0xE1}, nil) {
			if ex.byteIn(b1, []byte{0x9A}, nil) && ex.byteIn(b2, []byte{0x80}, nil) {
				return 3
			}
			return 0
		}
		if ex.byteIn(b0, []byte{0xE2}, nil) {
			// U+2000..U+200A, U+2028, U+2029, U+202F
			if ex.byteIn(b1, []byte{0x80}, nil) {
				if ex.byteIn(b2, []byte{0xA8, 0xA9, 0xAF}, [][2]byte{{0x80, 0x8A}}) {
					return 3
				}
				return 0
			}
			// U+205F
			if ex.byteIn(b1, []byte{0x81}, nil) && ex.byteIn(b2, []byte{0x9F}, nil) {
				return 3
			}
			return 0
		}
		// U+3000
		if ex.byteIn(b0, []byte{0xE3}, nil) && ex.byteIn(b1, []byte{0x80}, nil) && ex.byteIn(b2, []byte{0x80}, nil) {
			return 3
		}
	}
	return 0
}
