package symx

// The harness API: body-less functions of the package under test (declared in
// /verif/harness/rt_sym.go) that the engine intercepts.  The same functions
// have ordinary bodies in rt_native.go for native replay.

import (
	"fmt"
	"go/types"
	"sort"
	"strconv"
	"strings"

	"golang.org/x/tools/go/ssa"
)

func (ex *Exec) newVar(kind string, w int) *Term {
	name := "n" + strconv.Itoa(len(ex.nvars))
	t := ex.ts.Var(name, w)
	ex.nvars = append(ex.nvars, t)
	ex.nkinds = append(ex.nkinds, kind)
	ex.nfixed = append(ex.nfixed, -1)
	return t
}

func (ex *Exec) atFrontier() bool { return ex.pos >= len(ex.vec) }

func (ex *Exec) assume(c value) {
	switch c := c.(type) {
	case bool:
		if !c {
			panic(pathEnd{"assume"})
		}
	case sym:
		ex.decide(1, func(int) *Term { return c.t })
	default:
		panic(engineError{fmt.Sprintf("verifAssume on %T", c)})
	}
}

func (ex *Exec) violation(kind, id, msg string) {
	if !ex.atFrontier() {
		panic(engineError{"violation raised while replaying a recorded prefix"})
	}
	ex.recordViolation(kind, id, msg, ex.model)
}

func (ex *Exec) recordViolation(kind, id, msg string, model map[string]uint64) {
	viol := &Violation{Kind: kind, ID: id, Msg: msg, Model: model, Case: ex.caseLabel}
	viol.Vector, viol.Kinds = ex.vectorFor(model)
	viol.Decisions = append([]int{}, ex.vec[:ex.pos]...)
	viol.Sched = append([]int{}, ex.schedVec...)
	ex.violations = append(ex.violations, viol)
}

// vectorFor renders the nondet inputs of this path under a model.
func (ex *Exec) vectorFor(model map[string]uint64) ([]string, []string) {
	vec := make([]string, len(ex.nvars))
	for i, t := range ex.nvars {
		v := model[t.name] & mask64(t.w)
		switch ex.nkinds[i] {
		case "int", "choice":
			vec[i] = strconv.FormatInt(int64(v), 10)
		default:
			vec[i] = strconv.FormatUint(v, 10)
		}
	}
	return vec, append([]string{}, ex.nkinds...)
}

func (ex *Exec) assert(fr *frame, c value, id string) {
	if !ex.atFrontier() {
		// this instance was decided by the path that created the current prefix
		switch c := c.(type) {
		case bool:
			if !c {
				panic(engineError{"concrete assertion failure while replaying a recorded prefix"})
			}
		case sym:
			ex.assertPC(c.t)
		}
		return
	}
	switch c := c.(type) {
	case bool:
		if c {
			ex.asserts[id]++
			return
		}
		ex.violation("assert", id, "assertion "+id+" is false on this path")
		panic(pathEnd{"assert failed"})
	case sym:
		ex.obligations++
		nc := ex.ts.Not(c.t)
		memo := make(map[*Term]uint64)
		if c.t.Eval(ex.model, memo) == 0 {
			// the current model already falsifies the assertion
			ex.recordViolation("assert", id, "assertion "+id+" can be false", ex.model)
			v, m := ex.solver.Check(c.t, ex.nvars)
			switch v {
			case Sat:
				ex.model = m
				ex.assertPC(c.t)
			case Unsat:
				panic(pathEnd{"assert failed"})
			default:
				panic(engineError{"solver returned unknown on assertion " + id + ": " + ex.solver.LastErr})
			}
			return
		}
		v, model := ex.solver.Check(nc, ex.nvars)
		switch v {
		case Unsat:
			ex.asserts[id]++
		case Sat:
			ex.recordViolation("assert", id, "assertion "+id+" can be false", model)
		default:
			panic(engineError{"solver returned unknown on assertion " + id + ": " + ex.solver.LastErr})
		}
		ex.assertPC(c.t)
	default:
		panic(engineError{fmt.Sprintf("verifAssert on %T", c)})
	}
}

// obsString renders an observed value for comparison with the native run.
func (ex *Exec) obsString(v value, model map[string]uint64, memo map[*Term]uint64) string {
	switch x := v.(type) {
	case iface:
		if x.t == nil {
			return "nil"
		}
		tn := types.TypeString(x.t, func(p *types.Package) string { return p.Name() })
		if _, ok := x.t.Underlying().(*types.Basic); ok {
			return tn + ":" + ex.obsString(x.v, model, memo)
		}
		return tn
	case sym:
		val := x.t.Eval(model, memo)
		w, signed := kindInfo(x.k)
		if w == 0 {
			return strconv.FormatBool(val != 0)
		}
		if signed {
			return strconv.FormatInt(signExt(val, w), 10)
		}
		return strconv.FormatUint(val, 10)
	case symStr:
		var sb strings.Builder
		for _, b := range x {
			switch b := b.(type) {
			case uint8:
				sb.WriteByte(b)
			case sym:
				sb.WriteByte(byte(b.t.Eval(model, memo)))
			}
		}
		return strconv.Quote(sb.String())
	case string:
		return strconv.Quote(x)
	case bool:
		return strconv.FormatBool(x)
	case float32, float64, complex64, complex128:
		return fmt.Sprintf("%v", x)
	}
	if k, ok := kindOfValue(v); ok {
		t := ex.term(v)
		w, signed := kindInfo(k)
		if signed {
			return strconv.FormatInt(signExt(t.val, w), 10)
		}
		return strconv.FormatUint(t.val, 10)
	}
	return fmt.Sprintf("<%T>", v)
}

func harnessName(fr *frame) string {
	for f := fr; f != nil; f = f.caller {
		if strings.HasPrefix(f.fn.Name(), "VH_") {
			return f.fn.Name()
		}
	}
	return ""
}

func init() {
	in := intrinsics
	h := func(name string, f intrinsic) { in["harness."+name] = f }

	h("nondetInt", func(fr *frame, a []value) value {
		return sym{k: types.Int, t: fr.ex.newVar("int", 64)}
	})
	h("nondetBool", func(fr *frame, a []value) value {
		return sym{k: types.Bool, t: fr.ex.newVar("bool", 0)}
	})
	h("nondetUint8", func(fr *frame, a []value) value {
		return sym{k: types.Uint8, t: fr.ex.newVar("uint8", 8)}
	})
	h("nondetUint16", func(fr *frame, a []value) value {
		return sym{k: types.Uint16, t: fr.ex.newVar("uint16", 16)}
	})
	h("nondetChoice", func(fr *frame, a []value) value {
		ex := fr.ex
		n := int(concreteInt(fr, a[0], "nondetChoice"))
		if n <= 0 {
			panic(engineError{"nondetChoice(n) with n <= 0"})
		}
		v := ex.newVar("choice", 64)
		idx := len(ex.nvars) - 1
		c := ex.decide(n, func(i int) *Term { return ex.ts.Eq(v, ex.ts.Const(64, uint64(i))) })
		ex.nfixed[idx] = int64(c)
		return c
	})
	// verifString(n): a string of n unconstrained bytes.
	h("verifString", func(fr *frame, a []value) value {
		n := int(concreteInt(fr, a[0], "verifString"))
		out := make(symStr, n)
		for i := range out {
			out[i] = sym{k: types.Uint8, t: fr.ex.newVar("uint8", 8)}
		}
		if n == 0 {
			return ""
		}
		return out
	})
	h("verifAssume", func(fr *frame, a []value) value {
		fr.ex.assume(a[0])
		return nil
	})
	h("verifAssert", func(fr *frame, a []value) value {
		fr.ex.assert(fr, a[0], concreteStr(fr, a[1], "verifAssert"))
		return nil
	})
	h("verifReach", func(fr *frame, a []value) value {
		fr.ex.reached[concreteStr(fr, a[0], "verifReach")] = true
		return nil
	})
	h("verifObserve", func(fr *frame, a []value) value {
		fr.ex.observes = append(fr.ex.observes, obs{concreteStr(fr, a[0], "verifObserve"), a[1]})
		return nil
	})
	h("verifCase", func(fr *frame, a []value) value {
		fr.ex.caseLabel = concreteStr(fr, a[0], "verifCase")
		return nil
	})
	// verifFuncID(f): identity of a function value (0 for nil).
	h("verifFuncID", func(fr *frame, a []value) value {
		itf := a[0].(iface)
		if itf.t == nil {
			return 0
		}
		switch f := itf.v.(type) {
		case *closure:
			if f == nil {
				return 0
			}
			return fr.ex.funcID(f.Fn.String())
		case boundMethod:
			return fr.ex.funcID(f.fn.String())
		case *value:
			if f == nil {
				return 0
			}
			return 1000 + fr.ex.objID(f)
		case *omap:
			if f == nil {
				return 0
			}
			return 1000 + fr.ex.objID(f)
		case chanValue:
			return f.id
		default:
			if isNilRef(itf.v) {
				return 0
			}
			return fr.ex.funcID(toString(itf.v))
		}
	})
	// verifSymbolic(x): true in the engine when x holds symbolic data (used by
	// harnesses only to skip work that is pointless on concrete replays).
	h("verifIsEngine", func(fr *frame, a []value) value { return true })
	// verifFreeze(root): until verifThaw, stores into memory reachable from
	// root are violations of kind "write".
	h("verifFreeze", func(fr *frame, a []value) value {
		fr.ex.freeze(a[0])
		return nil
	})
	// verifShared(root): the structure shared by the harness's goroutines.
	h("verifShared", func(fr *frame, a []value) value {
		ts := fr.ex.sched()
		fs := &frozenSet{cells: map[*value]bool{}, maps: map[*omap]bool{}, seen: map[interface{}]bool{}, hits: map[string]bool{}}
		fs.walk(a[0], 0)
		// package-level variables are shared by all goroutines as well
		for _, m := range fr.ex.eng.Pkg.Members {
			if g, ok := m.(*ssa.Global); ok {
				fs.walk(fr.ex.global(g), 0)
			}
		}
		ts.shared = fs
		return nil
	})
	// verifJoin(): wait for every goroutine started by the harness.
	h("verifJoin", func(fr *frame, a []value) value {
		fr.ex.sched().join(fr)
		return nil
	})
	h("verifThaw", func(fr *frame, a []value) value {
		fr.ex.frozen = nil
		return nil
	})
}

func (ex *Exec) funcID(name string) int {
	if ex.funcIDs == nil {
		ex.funcIDs = make(map[string]int)
	}
	if id, ok := ex.funcIDs[name]; ok {
		return id
	}
	id := len(ex.funcIDs) + 1
	ex.funcIDs[name] = id
	return id
}

func sortedKeys(m map[string]bool) []string {
	var r []string
	for k := range m {
		r = append(r, k)
	}
	sort.Strings(r)
	return r
}
