package symx

// Path exploration of one case (harness + concrete shape parameters):
// replay-based DFS over decision vectors.

import (
	"fmt"
	"os"
	"path/filepath"
	"sort"
	"strings"
	"sync"
	"time"

	"golang.org/x/tools/go/ssa"
)

type CaseSpec struct {
	Harness string `json:"harness"`
	Params  []int  `json:"params"`
}

func (c CaseSpec) String() string {
	var p []string
	for _, x := range c.Params {
		p = append(p, fmt.Sprint(x))
	}
	return c.Harness + "(" + strings.Join(p, ",") + ")"
}

// Witness is one completed path: the inputs that drive the native build down
// the same path, and what the engine observed on it.
type Witness struct {
	Vector  []string `json:"vector"`
	Sched   []int    `json:"sched,omitempty"`
	Obs     []string `json:"obs"`
	Outcome string   `json:"outcome"` // "ok" | "assert:<id>" | "panic:<key>"
}

type CaseResult struct {
	Spec         CaseSpec
	Paths        int // completed paths
	Killed       int // paths ended by assume / infeasibility
	Transitions  int
	Obligations  int // solver-discharged assertion instances
	Violations   []*Violation
	Inconclusive []string
	Reached      map[string]int
	Asserts      map[string]int
	Witnesses    []Witness
	Funcs        map[string]bool
	Steps        int
	Wall         time.Duration
	Sample       string
}

type Limits struct {
	MaxPaths     int
	MaxWitnesses int
	Deadline     time.Time
}

// WorkItem is a path prefix to explore, with a model of its path condition.
type WorkItem struct {
	Vec   []int
	Model map[string]uint64
}

type caseState struct {
	eng      *Engine
	fn       *ssa.Function
	lim      Limits
	res      *CaseResult
	mu       sync.Mutex
	seenViol map[string]bool
	stopped  bool
	start    time.Time
}

type poolItem struct {
	cs *caseState
	it WorkItem
}

// Explore runs all cases on a pool of workers, each with its own solver
// process.  Paths of one case may run on several workers at once.
func (eng *Engine) Explore(cases []CaseSpec, workers int, lim Limits, transcriptDir string) ([]*CaseResult, SolverStats) {
	results := make([]*CaseResult, len(cases))
	var (
		mu          sync.Mutex
		cond        = sync.NewCond(&mu)
		queue       []poolItem
		outstanding int
		total       SolverStats
	)
	for i := len(cases) - 1; i >= 0; i-- {
		spec := cases[i]
		res := &CaseResult{Spec: spec, Reached: map[string]int{}, Asserts: map[string]int{}, Funcs: map[string]bool{}}
		results[i] = res
		fn := eng.Pkg.Func(spec.Harness)
		if fn == nil {
			res.Inconclusive = append(res.Inconclusive, "no such harness: "+spec.Harness)
			continue
		}
		cs := &caseState{eng: eng, fn: fn, lim: lim, res: res, seenViol: map[string]bool{}, start: time.Now()}
		queue = append(queue, poolItem{cs, WorkItem{Vec: nil, Model: map[string]uint64{}}})
		outstanding++
	}
	if workers < 1 {
		workers = 1
	}
	var wg sync.WaitGroup
	for w := 0; w < workers; w++ {
		wg.Add(1)
		go func(w int) {
			defer wg.Done()
			tr := ""
			if transcriptDir != "" {
				tr = filepath.Join(transcriptDir, fmt.Sprintf("queries-%02d.smt2", w))
			}
			solver, err := NewSolver(tr)
			if err != nil {
				panic(err)
			}
			for {
				mu.Lock()
				for len(queue) == 0 && outstanding > 0 {
					cond.Wait()
				}
				if len(queue) == 0 {
					mu.Unlock()
					break
				}
				it := queue[len(queue)-1]
				queue = queue[:len(queue)-1]
				mu.Unlock()

				alts := it.cs.runItem(solver, it.it)

				mu.Lock()
				for _, a := range alts {
					queue = append(queue, poolItem{it.cs, a})
				}
				outstanding += len(alts) - 1
				if outstanding == 0 || len(alts) > 0 {
					cond.Broadcast()
				}
				mu.Unlock()
			}
			answers := solver.Close()
			if tr != "" {
				os.WriteFile(tr+".answers", []byte(strings.Join(answers, "\n")+"\n"), 0o644)
			}
			mu.Lock()
			total.Queries += solver.Stats.Queries
			total.Sat += solver.Stats.Sat
			total.Unsat += solver.Stats.Unsat
			total.Unknown += solver.Stats.Unknown
			total.Errors += solver.Stats.Errors
			total.Time += solver.Stats.Time
			if solver.Stats.MaxQuery > total.MaxQuery {
				total.MaxQuery = solver.Stats.MaxQuery
			}
			mu.Unlock()
		}(w)
	}
	wg.Wait()
	for _, res := range results {
		sort.Slice(res.Violations, func(i, j int) bool { return res.Violations[i].ID < res.Violations[j].ID })
		sort.Slice(res.Witnesses, func(i, j int) bool {
			return strings.Join(res.Witnesses[i].Vector, ",") < strings.Join(res.Witnesses[j].Vector, ",")
		})
		sort.Strings(res.Inconclusive)
	}
	return results, total
}

// RunCase explores one case on one solver (used by `gosx run`).
func (eng *Engine) RunCase(spec CaseSpec, lim Limits) (*CaseResult, SolverStats) {
	r, st := eng.Explore([]CaseSpec{spec}, 1, lim, "")
	return r[0], st
}

// runItem executes one path and merges what it found into the case result.
func (cs *caseState) runItem(solver *Solver, it WorkItem) []WorkItem {
	res := cs.res
	cs.mu.Lock()
	if cs.stopped {
		cs.mu.Unlock()
		return nil
	}
	if cs.lim.MaxPaths > 0 && res.Paths+res.Killed >= cs.lim.MaxPaths {
		cs.stopped = true
		res.Inconclusive = append(res.Inconclusive, fmt.Sprintf("%s: path budget %d exhausted", res.Spec, cs.lim.MaxPaths))
		cs.mu.Unlock()
		return nil
	}
	if !cs.lim.Deadline.IsZero() && time.Now().After(cs.lim.Deadline) {
		cs.stopped = true
		res.Inconclusive = append(res.Inconclusive, fmt.Sprintf("%s: time budget exhausted", res.Spec))
		cs.mu.Unlock()
		return nil
	}
	cs.mu.Unlock()

	ex := cs.eng.newExec(solver, it)
	outcome, incon := ex.runPath(cs.fn, res.Spec)

	cs.mu.Lock()
	defer cs.mu.Unlock()
	res.Transitions += ex.transitions
	res.Obligations += ex.obligations
	res.Steps += ex.steps
	res.Wall = time.Since(cs.start)
	for f := range ex.funcs {
		if f.Pkg == cs.eng.Pkg {
			res.Funcs[f.String()] = true
		}
	}
	if incon != "" {
		if len(res.Inconclusive) < 50 {
			res.Inconclusive = append(res.Inconclusive, incon)
		}
		return ex.alts
	}
	for _, v := range ex.violations {
		key := v.Kind + "|" + v.ID + "|" + v.Case
		if !cs.seenViol[key] {
			cs.seenViol[key] = true
			res.Violations = append(res.Violations, v)
		}
	}
	if outcome == "killed" {
		res.Killed++
		return ex.alts
	}
	res.Paths++
	for k := range ex.reached {
		res.Reached[k]++
	}
	for k, n := range ex.asserts {
		res.Asserts[k] += n
	}
	if ex.witness != nil && (cs.lim.MaxWitnesses <= 0 || len(res.Witnesses) < cs.lim.MaxWitnesses) {
		res.Witnesses = append(res.Witnesses, *ex.witness)
	}
	if res.Sample == "" && ex.witness != nil && len(ex.vec) > 0 {
		res.Sample = fmt.Sprintf("%s inputs=%v decisions=%v outcome=%s", res.Spec, ex.witness.Vector, ex.vec, ex.witness.Outcome)
	}
	return ex.alts
}

func (eng *Engine) newExec(solver *Solver, it WorkItem) *Exec {
	vec := it.Vec
	return &Exec{
		model:   it.Model,
		eng:     eng,
		ts:      NewTermStore(),
		solver:  solver,
		globals: make(map[*ssa.Global]*value),
		vec:     append([]int{}, vec...),
		reached: map[string]bool{},
		asserts: map[string]int{},
		funcs:   map[*ssa.Function]bool{},
	}
}

// runPath executes one path. outcome: "ok", "killed", "violation".
func (ex *Exec) runPath(fn *ssa.Function, spec CaseSpec) (outcome string, inconclusive string) {
	ex.solver.BeginPath()
	defer ex.solver.EndPath()
	defer func() {
		r := recover()
		if ex.hooks != nil {
			ex.hooks.finish()
		}
		if r == nil {
			return
		}
		switch p := r.(type) {
		case pathEnd:
			if p.reason == "assert failed" {
				outcome = "violation"
				ex.finishWitness("assert")
				return
			}
			outcome = "killed"
		case engineError:
			inconclusive = fmt.Sprintf("%s: %s (decisions %v)", spec, p.msg, ex.vec)
		case unsupported:
			inconclusive = fmt.Sprintf("%s: unsupported: %s (decisions %v)", spec, p.msg, ex.vec)
		case targetPanic:
			id := "panic:" + siteOf(p.where) + ":explicit"
			ex.panicViolation(id, "panic: "+toString(p.v)+" at "+p.where, &outcome, &inconclusive, spec)
		case runtimePanic:
			id := "panic:" + siteOf(p.where) + ":" + p.kind
			ex.panicViolation(id, "runtime panic: "+p.msg+" at "+p.where, &outcome, &inconclusive, spec)
		default:
			panic(r)
		}
	}()
	// package initialisation, then the harness
	if init := ex.eng.Pkg.Func("init"); init != nil {
		ex.call(nil, 0, init, nil)
	}
	params := make([]value, len(spec.Params))
	for i, p := range spec.Params {
		params[i] = p
	}
	ex.call(nil, 0, fn, []value{params})
	ex.finishWitness("ok")
	return "ok", ""
}

func siteOf(where string) string {
	if i := strings.Index(where, " ["); i >= 0 {
		return where[:i]
	}
	return where
}

func (ex *Exec) panicViolation(id, msg string, outcome, inconclusive *string, spec CaseSpec) {
	defer func() {
		if r := recover(); r != nil {
			if e, ok := r.(engineError); ok {
				*inconclusive = fmt.Sprintf("%s: %s", spec, e.msg)
				return
			}
			panic(r)
		}
	}()
	ex.violation("panic", id, msg)
	*outcome = "violation"
	ex.finishWitness(id)
}

// finishWitness obtains a model of the completed path and renders inputs and
// observations for native replay.
func (ex *Exec) finishWitness(outcome string) {
	model := ex.model
	if n := len(ex.violations); n > 0 && outcome != "ok" {
		model = ex.violations[n-1].Model
	}
	if model == nil {
		model = map[string]uint64{}
	}
	vec, _ := ex.vectorFor(model)
	memo := make(map[*Term]uint64)
	w := &Witness{Vector: vec, Outcome: outcome, Sched: append([]int{}, ex.schedVec...)}
	for _, o := range ex.observes {
		w.Obs = append(w.Obs, o.tag+"="+ex.obsString(o.v, model, memo))
	}
	if outcome != "ok" && len(ex.violations) > 0 {
		v := ex.violations[len(ex.violations)-1]
		w.Outcome = v.Kind + ":" + v.ID
		if v.Kind == "panic" {
			w.Outcome = v.ID
		}
	}
	ex.witness = w
}
