package symx

// Engine threads (C10).  `go` statements of a harness create engine threads,
// each backed by a host goroutine; exactly one runs at a time (baton passing).
// Context switches happen only at scheduling points: just before
// sync.Mutex.Lock ("lock.want"), after sync.Mutex.Unlock, when a thread ends
// and in verifJoin.  The scheduler's choice at every point with more than one
// runnable thread is a decision of the path search, so the interleaving is
// explored like any other symbolic input; the choices are recorded (Sched)
// for native schedule replay.
//
// While threads are active every load and store of a cell reachable from the
// shared root (verifShared) is logged with the thread and whether it held a
// mutex; conflicting accesses of different threads that are not both made
// under a mutex are reported as race candidates (lockset discipline).

import (
	"fmt"
	"sort"

	"golang.org/x/tools/go/ssa"
)

type thread struct {
	id      int
	wake    chan bool // true = run, false = abort
	exited  chan struct{}
	done    bool
	blocked *value // mutex this thread waits for
	joining bool
	started bool
}

type threadAbort struct{}

type access struct {
	thread int
	write  bool
	locked bool
	site   string
}

type threadSched struct {
	ex       *Exec
	threads  []*thread
	cur      *thread
	err      interface{} // panic of a non-main thread, re-raised in main
	shared   *frozenSet
	log      map[*value][]access
	mlog     map[*omap][]access
	active   bool // concurrent phase
	held     map[int]int // thread id -> number of mutexes held
}

func (ex *Exec) sched() *threadSched {
	if ex.hooks == nil {
		main := &thread{id: 0, wake: make(chan bool), started: true}
		ex.hooks = &threadSched{ex: ex, threads: []*thread{main}, cur: main, log: map[*value][]access{}, mlog: map[*omap][]access{}, held: map[int]int{}}
	}
	return ex.hooks
}

func (ts *threadSched) runnable(t *thread) bool {
	if t.done {
		return false
	}
	if t.blocked != nil && ts.ex.lockOf(t.blocked).held {
		return false
	}
	if t.joining {
		for _, o := range ts.threads {
			if o != t && !o.done {
				return false
			}
		}
	}
	return true
}

func (ts *threadSched) candidates(exclude *thread) []*thread {
	var c []*thread
	for _, t := range ts.threads {
		if t != exclude && ts.runnable(t) {
			c = append(c, t)
		}
	}
	return c
}

// pick makes the scheduling decision among cands (sorted by id).
func (ts *threadSched) pick(cands []*thread) *thread {
	if len(cands) == 1 {
		return cands[0]
	}
	c := ts.ex.decide(len(cands), func(int) *Term { return nil })
	ts.ex.schedVec = append(ts.ex.schedVec, c)
	return cands[c]
}

// switchTo hands the baton to next and parks the current thread.
func (ts *threadSched) switchTo(next *thread) {
	cur := ts.cur
	if next == cur {
		return
	}
	ts.cur = next
	ts.ex.thread = next.id
	if !next.started {
		next.started = true
	}
	next.wake <- true
	if ok := <-cur.wake; !ok {
		panic(threadAbort{})
	}
	ts.cur = cur
	ts.ex.thread = cur.id
	if cur.id == 0 && ts.err != nil {
		e := ts.err
		ts.err = nil
		panic(e)
	}
}

// yieldPoint lets the scheduler run another thread here.
func (ts *threadSched) yieldPoint() {
	if len(ts.threads) == 1 {
		return
	}
	cands := ts.candidates(nil)
	if len(cands) == 0 {
		return
	}
	ts.switchTo(ts.pick(cands))
}

func (ts *threadSched) where(fr *frame) string {
	if fr == nil {
		return "?"
	}
	return fr.siteKey() + " [" + fr.where() + "]"
}

func (ts *threadSched) lock(fr *frame, m *value) {
	ex := ts.ex
	ts.yieldPoint() // lock.want
	ls := ex.lockOf(m)
	for ls.held {
		if ls.owner == ts.cur.id {
			panic(runtimePanic{kind: "deadlock", msg: "sync.Mutex.Lock on a mutex this goroutine already holds", where: ts.where(fr)})
		}
		ts.cur.blocked = m
		cands := ts.candidates(ts.cur)
		if len(cands) == 0 {
			panic(runtimePanic{kind: "deadlock", msg: "all goroutines are blocked", where: ts.where(fr)})
		}
		ts.switchTo(ts.pick(cands))
	}
	ts.cur.blocked = nil
	ls.held, ls.owner = true, ts.cur.id
	ts.held[ts.cur.id]++
}

func (ts *threadSched) unlock(fr *frame, m *value) {
	ls := ts.ex.lockOf(m)
	if !ls.held {
		panic(runtimePanic{kind: "unlock", msg: "sync: unlock of unlocked mutex", where: ts.where(fr)})
	}
	ls.held = false
	ts.held[ls.owner]--
	ts.yieldPoint() // lock.released
}

// spawn implements the go statement.
func (ex *Exec) spawn(fr *frame, instr *ssa.Go, fn value, args []value) {
	ts := ex.sched()
	t := &thread{id: len(ts.threads), wake: make(chan bool), exited: make(chan struct{})}
	ts.threads = append(ts.threads, t)
	ts.active = true
	go func() {
		defer close(t.exited)
		if ok := <-t.wake; !ok {
			return
		}
		defer func() {
			r := recover()
			if _, isAbort := r.(threadAbort); isAbort {
				return
			}
			t.done = true
			main := ts.threads[0]
			if r != nil {
				// hand the failure to the main thread
				ts.err = r
				ts.cur = main
				ts.ex.thread = 0
				main.wake <- true
				return
			}
			// normal end: pick who runs next
			cands := ts.candidates(t)
			if len(cands) == 0 {
				ts.err = runtimePanic{kind: "deadlock", msg: "all goroutines are blocked at the end of a goroutine", where: "goroutine end"}
				ts.cur = main
				ts.ex.thread = 0
				main.wake <- true
				return
			}
			func() {
				defer func() {
					if r2 := recover(); r2 != nil {
						ts.err = r2
						ts.cur = main
						ts.ex.thread = 0
						main.wake <- true
					}
				}()
				next := ts.pick(cands)
				ts.cur = next
				ts.ex.thread = next.id
				next.wake <- true
			}()
		}()
		ex.call(nil, instr.Pos(), fn, args)
	}()
}

// join parks the main thread until every other thread has ended.
func (ts *threadSched) join(fr *frame) {
	main := ts.threads[0]
	for {
		all := true
		for _, t := range ts.threads[1:] {
			if !t.done {
				all = false
			}
		}
		if all {
			break
		}
		main.joining = true
		cands := ts.candidates(main)
		if len(cands) == 0 {
			panic(runtimePanic{kind: "deadlock", msg: "all goroutines are blocked (join)", where: ts.where(fr)})
		}
		ts.switchTo(ts.pick(cands))
	}
	main.joining = false
	ts.active = false
	ts.reportRaces()
}

// finish aborts the threads that are still parked (end of path).
func (ts *threadSched) finish() {
	for _, t := range ts.threads[1:] {
		if !t.done || !isClosed(t.exited) {
			select {
			case t.wake <- false:
			case <-t.exited:
			}
			<-t.exited
		}
	}
}

func isClosed(c chan struct{}) bool {
	select {
	case <-c:
		return true
	default:
		return false
	}
}

// ---- access log / lockset

func (ts *threadSched) noteWrite(fr *frame, addr interface{}) { ts.note(fr, addr, true) }
func (ts *threadSched) noteRead(fr *frame, addr interface{})  { ts.note(fr, addr, false) }

func (ts *threadSched) note(fr *frame, addr interface{}, write bool) {
	if !ts.active || ts.shared == nil || fr == nil {
		return
	}
	a := access{thread: ts.cur.id, write: write, locked: ts.held[ts.cur.id] > 0, site: fr.siteKey()}
	switch x := addr.(type) {
	case *value:
		if ts.shared.cells[x] {
			ts.log[x] = appendAccess(ts.log[x], a)
		}
	case *omap:
		if ts.shared.maps[x] {
			ts.mlog[x] = appendAccess(ts.mlog[x], a)
		}
	}
}

func appendAccess(l []access, a access) []access {
	for _, b := range l {
		if b == a {
			return l
		}
	}
	return append(l, a)
}

func (ts *threadSched) reportRaces() {
	found := map[string]string{}
	check := func(l []access) {
		for i := range l {
			for j := i + 1; j < len(l); j++ {
				a, b := l[i], l[j]
				if a.thread == b.thread || (!a.write && !b.write) || (a.locked && b.locked) {
					continue
				}
				if a.thread == 0 || b.thread == 0 {
					continue // the main thread only runs before the go statements and after the join
				}
				s1, s2 := a.site, b.site
				k1, k2 := "r", "r"
				if a.write {
					k1 = "w"
				}
				if b.write {
					k2 = "w"
				}
				p := []string{k1 + ":" + s1, k2 + ":" + s2}
				sort.Strings(p)
				id := "race:" + p[0] + "|" + p[1]
				if _, ok := found[id]; !ok {
					found[id] = fmt.Sprintf("unsynchronised %s in %s and %s in %s on shared memory", map[string]string{"r": "read", "w": "write"}[k1], s1, map[string]string{"r": "read", "w": "write"}[k2], s2)
				}
			}
		}
	}
	for _, l := range ts.log {
		check(l)
	}
	for _, l := range ts.mlog {
		check(l)
	}
	var ids []string
	for id := range found {
		ids = append(ids, id)
	}
	sort.Strings(ids)
	if !ts.ex.atFrontier() {
		return
	}
	for _, id := range ids {
		ts.ex.recordViolation("race", id, found[id], ts.ex.model)
	}
}
