package symx

import "golang.org/x/tools/go/ssa"

// threadSched is installed by harnesses that start goroutines (C10).
type threadSched struct {
	ex *Exec
}

func (ts *threadSched) noteWrite(fr *frame, addr interface{}) {}
func (ts *threadSched) lock(fr *frame, m *value)               {}
func (ts *threadSched) unlock(fr *frame, m *value)             {}
func (ts *threadSched) finish()                                {}

func (ex *Exec) spawn(fr *frame, instr *ssa.Go, fn value, args []value) {
	panic(engineError{"go statements are not supported yet"})
}
