package symx

// Solver: one long-lived `z3 -in` process, driven with push/pop.  Any
// `(error` line, `unknown` or time-out is reported as Unknown and never as a
// verdict.

import (
	"bufio"
	"fmt"
	"io"
	"os"
	"os/exec"
	"strconv"
	"strings"
	"time"
)

type Verdict int

const (
	Unsat Verdict = iota
	Sat
	Unknown
)

func (v Verdict) String() string {
	return [...]string{"unsat", "sat", "unknown"}[v]
}

type SolverStats struct {
	Queries  int
	Sat      int
	Unsat    int
	Unknown  int
	Errors   int
	Time     time.Duration
	MaxQuery time.Duration
}

type Solver struct {
	cmd     *exec.Cmd
	in      *bufio.Writer
	out     *bufio.Reader
	defined map[int]bool    // term ids defined in the current path scope
	decl    map[string]bool // variables declared in the current path scope
	Stats   SolverStats
	log     *bufio.Writer // optional transcript (for cross-solver diff)
	logf    *os.File
	answers []string
	dead    bool
	LastErr string
}

var SolverBinary = "z3"
var SolverTimeoutMs = 10000

func NewSolver(transcript string) (*Solver, error) {
	cmd := exec.Command(SolverBinary, "-in")
	stdin, err := cmd.StdinPipe()
	if err != nil {
		return nil, err
	}
	stdout, err := cmd.StdoutPipe()
	if err != nil {
		return nil, err
	}
	cmd.Stderr = os.Stderr
	if err := cmd.Start(); err != nil {
		return nil, err
	}
	s := &Solver{cmd: cmd, in: bufio.NewWriterSize(stdin, 1<<16), out: bufio.NewReaderSize(stdout, 1<<16)}
	if transcript != "" {
		f, err := os.Create(transcript)
		if err != nil {
			return nil, err
		}
		s.logf = f
		s.log = bufio.NewWriterSize(f, 1<<16)
	}
	s.send("(set-option :print-success false)")
	s.send("(set-option :produce-models true)")
	s.sendNoLog(fmt.Sprintf("(set-option :timeout %d)", SolverTimeoutMs))
	return s, nil
}

func (s *Solver) Close() []string {
	if s.in != nil {
		s.sendNoLog("(exit)")
		s.in.Flush()
	}
	if s.cmd != nil {
		done := make(chan struct{})
		go func() { s.cmd.Wait(); close(done) }()
		select {
		case <-done:
		case <-time.After(2 * time.Second):
			s.cmd.Process.Kill()
		}
	}
	if s.log != nil {
		s.log.Flush()
		s.logf.Close()
	}
	return s.answers
}

func (s *Solver) send(line string) {
	s.in.WriteString(line)
	s.in.WriteByte('\n')
	if s.log != nil {
		s.log.WriteString(line)
		s.log.WriteByte('\n')
	}
}

func (s *Solver) sendNoLog(line string) {
	s.in.WriteString(line)
	s.in.WriteByte('\n')
}

// BeginPath opens a solver scope for one execution path.
func (s *Solver) BeginPath() {
	s.defined = make(map[int]bool)
	s.decl = make(map[string]bool)
	s.send("(push 1)")
}

func (s *Solver) EndPath() {
	s.send("(pop 1)")
}

// define makes sure t (and its sub-terms) are known to the solver and
// returns the token that refers to it.
func (s *Solver) define(t *Term) string {
	switch t.op {
	case "const":
		return t.ref()
	case "var":
		if !s.decl[t.name] {
			s.decl[t.name] = true
			s.send("(declare-const " + t.name + " " + sortOf(t.w) + ")")
		}
		return t.name
	}
	if s.defined[t.id] {
		return t.ref()
	}
	// iterative post-order to avoid deep recursion
	type fr struct {
		t *Term
		i int
	}
	stack := []fr{{t, 0}}
	for len(stack) > 0 {
		top := &stack[len(stack)-1]
		if top.i < len(top.t.args) {
			a := top.t.args[top.i]
			top.i++
			switch a.op {
			case "const":
			case "var":
				if !s.decl[a.name] {
					s.decl[a.name] = true
					s.send("(declare-const " + a.name + " " + sortOf(a.w) + ")")
				}
			default:
				if !s.defined[a.id] {
					stack = append(stack, fr{a, 0})
				}
			}
			continue
		}
		tt := top.t
		stack = stack[:len(stack)-1]
		if !s.defined[tt.id] {
			s.defined[tt.id] = true
			s.send("(define-fun " + tt.ref() + " () " + sortOf(tt.w) + " " + tt.body() + ")")
		}
	}
	return t.ref()
}

// Assert adds t to the current path scope.
func (s *Solver) Assert(t *Term) {
	if t.IsTrue() {
		return
	}
	s.send("(assert " + s.define(t) + ")")
}

func (s *Solver) readLine() (string, error) {
	line, err := s.out.ReadString('\n')
	return strings.TrimSpace(line), err
}

func (s *Solver) readVerdict() Verdict {
	for {
		line, err := s.readLine()
		if err != nil {
			s.dead = true
			s.LastErr = "solver died: " + err.Error()
			return Unknown
		}
		switch {
		case line == "sat":
			return Sat
		case line == "unsat":
			return Unsat
		case line == "unknown" || line == "timeout":
			return Unknown
		case strings.HasPrefix(line, "(error"):
			s.Stats.Errors++
			s.LastErr = line
			// keep reading until the verdict, but poison it
			v := s.readVerdict()
			_ = v
			return Unknown
		case line == "":
		default:
			// unexpected chatter: treat as error
			s.Stats.Errors++
			s.LastErr = "unexpected solver output: " + line
		}
	}
}

// Check decides path-condition ∧ extra (extra may be nil).  If sat and vars
// is non-empty, the values of vars are returned.
func (s *Solver) Check(extra *Term, vars []*Term) (Verdict, map[string]uint64) {
	if s.dead {
		return Unknown, nil
	}
	if extra != nil && extra.IsFalse() {
		return Unsat, nil
	}
	start := time.Now()
	var ref string
	if extra != nil && !extra.IsTrue() {
		ref = s.define(extra)
	}
	var refs []string
	for _, v := range vars {
		refs = append(refs, s.define(v))
	}
	s.send("(push 1)")
	if ref != "" {
		s.send("(assert " + ref + ")")
	}
	s.send("(check-sat)")
	s.in.Flush()
	v := s.readVerdict()
	var model map[string]uint64
	if v == Sat && len(vars) > 0 {
		s.sendNoLog("(get-value (" + strings.Join(refs, " ") + "))")
		s.in.Flush()
		model = s.readValues(vars)
		if model == nil {
			v = Unknown
		}
	}
	s.send("(pop 1)")
	d := time.Since(start)
	s.Stats.Queries++
	s.Stats.Time += d
	if d > s.Stats.MaxQuery {
		s.Stats.MaxQuery = d
	}
	switch v {
	case Sat:
		s.Stats.Sat++
	case Unsat:
		s.Stats.Unsat++
	default:
		s.Stats.Unknown++
	}
	if s.log != nil {
		s.answers = append(s.answers, v.String())
	}
	return v, model
}

// readValues parses the reply of (get-value ...): a balanced s-expression
// ((ref val) (ref val) ...), possibly spread over several lines.
func (s *Solver) readValues(vars []*Term) map[string]uint64 {
	var buf strings.Builder
	depth := 0
	started := false
	for {
		r, _, err := s.out.ReadRune()
		if err != nil {
			if err == io.EOF {
				s.dead = true
			}
			s.LastErr = "solver died while reading model"
			return nil
		}
		if !started {
			if r == '(' {
				started = true
			} else if r == ' ' || r == '\n' || r == '\r' || r == '\t' {
				continue
			} else {
				// error text
				rest, _ := s.out.ReadString('\n')
				s.LastErr = "unexpected model output: " + string(r) + rest
				return nil
			}
		}
		buf.WriteRune(r)
		if r == '(' {
			depth++
		} else if r == ')' {
			depth--
			if depth == 0 {
				break
			}
		}
	}
	txt := buf.String()
	if strings.HasPrefix(txt, "(error") {
		s.Stats.Errors++
		s.LastErr = txt
		return nil
	}
	toks := tokenize(txt)
	// grammar: ( (ref val)* )
	model := make(map[string]uint64)
	i := 1
	idx := 0
	for i < len(toks)-1 && idx < len(vars) {
		if toks[i] != "(" {
			s.LastErr = "model parse error: " + txt
			return nil
		}
		i++ // (
		i++ // ref (single token: vars and tN refs are atoms)
		var val uint64
		tok := toks[i]
		switch {
		case tok == "true":
			val = 1
			i++
		case tok == "false":
			val = 0
			i++
		case strings.HasPrefix(tok, "#x"):
			val, _ = strconv.ParseUint(tok[2:], 16, 64)
			i++
		case strings.HasPrefix(tok, "#b"):
			val, _ = strconv.ParseUint(tok[2:], 2, 64)
			i++
		case tok == "(":
			// (_ bvN w)
			if i+3 < len(toks) && toks[i+1] == "_" && strings.HasPrefix(toks[i+2], "bv") {
				val, _ = strconv.ParseUint(toks[i+2][2:], 10, 64)
				i += 5
			} else {
				s.LastErr = "model parse error: " + txt
				return nil
			}
		default:
			s.LastErr = "model parse error: " + txt
			return nil
		}
		if toks[i] != ")" {
			s.LastErr = "model parse error: " + txt
			return nil
		}
		i++
		v := vars[idx]
		key := v.name
		if v.op != "var" {
			key = v.ref()
		}
		model[key] = val
		idx++
	}
	return model
}

func tokenize(s string) []string {
	var toks []string
	cur := strings.Builder{}
	flush := func() {
		if cur.Len() > 0 {
			toks = append(toks, cur.String())
			cur.Reset()
		}
	}
	for _, r := range s {
		switch r {
		case '(', ')':
			flush()
			toks = append(toks, string(r))
		case ' ', '\n', '\t', '\r':
			flush()
		default:
			cur.WriteRune(r)
		}
	}
	flush()
	return toks
}
