// Copyright 2013 The Go Authors. All rights reserved.
// Use of this source code is governed by a BSD-style
// license that can be found in the LICENSE file.
//
// This file derives from golang.org/x/tools/go/ssa/interp (interp.go) and was
// rewritten as a symbolic executor: one Exec runs ONE path of a harness,
// following a recorded vector of decisions and extending it at the frontier
// with solver-checked alternatives.

package symx

import (
	"fmt"
	"go/token"
	"go/types"
	"runtime"
	"slices"
	"strings"

	"golang.org/x/tools/go/ssa"
)

type continuation int

const (
	kNext continuation = iota
	kReturn
	kJump
)

// Engine holds what is shared, read-only, between all paths and workers.
type Engine struct {
	Prog     *ssa.Program
	Pkg      *ssa.Package // the package under test (with harness overlay)
	Fset     *token.FileSet
	MaxSteps int // instruction budget per path
	MaxLoop  int // visits of one basic block per frame (unwinding check)
	ext      *extTypes
	Trace    bool
}

// Panics used for control.
type targetPanic struct { // explicit panic() in the target
	v     value
	where string
}

type runtimePanic struct { // Go runtime error raised by the target
	kind  string // "index", "slice", "nil", "assert", "divide", "makeslice", "nilmap", "intrinsic", "deadlock"
	msg   string
	where string
}

type pathEnd struct{ reason string } // path abandoned (assume false, infeasible)

type engineError struct{ msg string } // unsupported feature / budget: inconclusive

type deferred struct {
	fn    value
	args  []value
	instr *ssa.Defer
	tail  *deferred
}

type frame struct {
	ex               *Exec
	caller           *frame
	fn               *ssa.Function
	block, prevBlock *ssa.BasicBlock
	env              map[ssa.Value]value
	locals           []value
	defers           *deferred
	result           value
	panicking        bool
	panic            interface{}
	phitemps         []value
	visits           map[*ssa.BasicBlock]int
	curInstr         ssa.Instruction
}

// Exec is the state of one path execution.
type Exec struct {
	eng     *Engine
	ts      *TermStore
	solver  *Solver
	globals map[*ssa.Global]*value

	// decisions
	vec  []int   // decision vector being followed / extended
	pos  int     // next decision index
	alts []WorkItem // alternates discovered on this path (to be explored)
	model map[string]uint64 // in frontier mode: a model of the path condition
	known map[*Term]bool    // literals fixed by the path condition
	pc   []*Term // asserted path condition (for diagnostics)

	// nondet inputs, in call order
	nvars  []*Term
	nkinds []string
	nfixed []int64 // value fixed by a choice (or -1)

	steps       int
	transitions int // solver-decided forks on this path
	obligations int // assertion instances decided by the solver on this path
	witness     *Witness
	funcIDs     map[string]int
	stdout      strings.Builder

	// harness bookkeeping
	caseLabel string
	reached   map[string]bool
	observes  []obs
	asserts   map[string]int // assertion id -> times discharged on this path
	violations []*Violation
	funcs     map[*ssa.Function]bool // functions interpreted on this path

	// environment model
	locks    map[*value]*lockState
	syncMaps map[*value]*omap // engine-side state of sync.Map instances
	thread   int
	nextObj  int
	objIDs   map[interface{}]int
	snaps    []string
	top      *frame
	randCtr  int64
	hooks    *threadSched
	frozen   *frozenSet
	schedVec []int // scheduling choices (index among runnable threads), in order
	curFrame *frame
}

type obs struct {
	tag string
	v   value
}

type lockState struct {
	held  bool
	owner int
}

// Violation describes a failed assertion or an escaping panic on a path.
type Violation struct {
	Kind   string // "assert" | "panic"
	ID     string // assertion id or panic site key
	Msg    string
	Model  map[string]uint64
	Vector []string // nondet values (decimal), call order
	Kinds  []string
	Case   string
	Decisions []int
	Sched  []int
}

func mustDeref(t types.Type) types.Type {
	if p, ok := t.Underlying().(*types.Pointer); ok {
		return p.Elem()
	}
	panic(fmt.Sprintf("mustDeref: not a pointer: %s", t))
}

func (fr *frame) where() string {
	pos := token.NoPos
	if fr.curInstr != nil {
		pos = fr.curInstr.Pos()
	}
	p := fr.ex.eng.Fset.Position(pos)
	file := p.Filename
	if i := strings.LastIndexByte(file, '/'); i >= 0 {
		file = file[i+1:]
	}
	return fmt.Sprintf("%s@%s:%d", fr.fn.String(), file, p.Line)
}

// siteKey is a position-independent key of the innermost frame in the
// package under test (used in finding keys).
func (fr *frame) siteKey() string {
	for f := fr; f != nil; f = f.caller {
		if f.fn.Pkg == fr.ex.eng.Pkg && !strings.HasPrefix(f.fn.Name(), "VH_") && !strings.HasPrefix(f.fn.Name(), "vh") {
			return f.fn.String()
		}
	}
	return fr.fn.String()
}

func (fr *frame) rtPanic(kind, format string, args ...interface{}) {
	panic(runtimePanic{kind: kind, msg: fmt.Sprintf(format, args...), where: fr.siteKey() + " [" + fr.where() + "]"})
}

func (fr *frame) get(key ssa.Value) value {
	switch key := key.(type) {
	case nil:
		return nil
	case *ssa.Function, *ssa.Builtin:
		return key
	case *ssa.Const:
		return constValue(key)
	case *ssa.Global:
		return fr.ex.global(key)
	}
	if r, ok := fr.env[key]; ok {
		return r
	}
	panic(engineError{fmt.Sprintf("get: no value for %T: %v", key, key.Name())})
}

func (ex *Exec) global(g *ssa.Global) *value {
	if r, ok := ex.globals[g]; ok {
		return r
	}
	cell := zero(mustDeref(g.Type()))
	ex.globals[g] = &cell
	return &cell
}

// runDefer runs a deferred call d.
// It always returns normally, but may set or clear fr.panic.
func (fr *frame) runDefer(d *deferred) {
	var ok bool
	defer func() {
		if !ok {
			r := recover()
			if !isTargetPanic(r) {
				panic(r)
			}
			// Deferred call created a new state of panic.
			fr.panicking = true
			fr.panic = r
		}
	}()
	fr.ex.call(fr, d.instr.Pos(), d.fn, d.args)
	ok = true
}

func isTargetPanic(r interface{}) bool {
	switch r.(type) {
	case targetPanic, runtimePanic:
		return true
	}
	return false
}

// runDefers executes fr's deferred function calls in LIFO order.
func (fr *frame) runDefers() {
	for d := fr.defers; d != nil; d = d.tail {
		fr.runDefer(d)
	}
	fr.defers = nil
	if fr.panicking {
		panic(fr.panic) // new panic, or still panicking
	}
}

// visitInstr interprets a single ssa.Instruction within the activation
// record frame.
func visitInstr(fr *frame, instr ssa.Instruction) continuation {
	ex := fr.ex
	fr.curInstr = instr
	ex.curFrame = fr
	ex.steps++
	if ex.steps > ex.eng.MaxSteps {
		panic(engineError{"UNWIND-EXCEEDED: instruction budget exhausted in " + fr.where()})
	}
	switch instr := instr.(type) {
	case *ssa.DebugRef:
		// no-op

	case *ssa.UnOp:
		fr.env[instr] = ex.unop(fr, instr, fr.get(instr.X))

	case *ssa.BinOp:
		fr.env[instr] = ex.binop(fr, instr.Op, instr.X.Type(), fr.get(instr.X), fr.get(instr.Y))

	case *ssa.Call:
		fn, args := prepareCall(fr, &instr.Call)
		fr.env[instr] = ex.call(fr, instr.Pos(), fn, args)
		fr.curInstr = instr

	case *ssa.ChangeInterface:
		fr.env[instr] = fr.get(instr.X)

	case *ssa.ChangeType:
		fr.env[instr] = fr.get(instr.X) // (can't fail)

	case *ssa.Convert:
		fr.env[instr] = ex.conv(fr, instr.Type(), instr.X.Type(), fr.get(instr.X))

	case *ssa.MakeInterface:
		fr.env[instr] = iface{t: instr.X.Type(), v: fr.get(instr.X)}

	case *ssa.Extract:
		fr.env[instr] = fr.get(instr.Tuple).(tuple)[instr.Index]

	case *ssa.Slice:
		fr.env[instr] = ex.slice(fr, instr, fr.get(instr.X), fr.get(instr.Low), fr.get(instr.High), fr.get(instr.Max))

	case *ssa.Return:
		switch len(instr.Results) {
		case 0:
		case 1:
			fr.result = fr.get(instr.Results[0])
		default:
			var res []value
			for _, r := range instr.Results {
				res = append(res, fr.get(r))
			}
			fr.result = tuple(res)
		}
		fr.block = nil
		return kReturn

	case *ssa.RunDefers:
		fr.runDefers()

	case *ssa.Panic:
		panic(targetPanic{v: fr.get(instr.X), where: fr.siteKey() + " [" + fr.where() + "]"})

	case *ssa.Store:
		addr := fr.get(instr.Addr).(*value)
		if addr == nil {
			fr.rtPanic("nil", "nil pointer dereference (store)")
		}
		ex.noteWrite(fr, addr)
		store(mustDeref(instr.Addr.Type()), addr, fr.get(instr.Val))

	case *ssa.If:
		succ := 1
		switch c := fr.get(instr.Cond).(type) {
		case bool:
			if c {
				succ = 0
			}
		case sym:
			if ex.branch(c.t) {
				succ = 0
			}
		default:
			panic(engineError{fmt.Sprintf("If on %T", c)})
		}
		fr.prevBlock, fr.block = fr.block, fr.block.Succs[succ]
		return kJump

	case *ssa.Jump:
		fr.prevBlock, fr.block = fr.block, fr.block.Succs[0]
		return kJump

	case *ssa.Defer:
		fn, args := prepareCall(fr, &instr.Call)
		defers := &fr.defers
		if into := fr.get(instr.DeferStack); into != nil {
			defers = into.(**deferred)
		}
		*defers = &deferred{
			fn:    fn,
			args:  args,
			instr: instr,
			tail:  *defers,
		}

	case *ssa.Go:
		fn, args := prepareCall(fr, &instr.Call)
		ex.spawn(fr, instr, fn, args)

	case *ssa.Alloc:
		var addr *value
		if instr.Heap {
			addr = new(value)
			fr.env[instr] = addr
		} else {
			addr = fr.env[instr].(*value)
		}
		*addr = zero(mustDeref(instr.Type()))

	case *ssa.MakeSlice:
		tElt := instr.Type().Underlying().(*types.Slice).Elem()
		c := ex.concretizeSize(fr, fr.get(instr.Cap), "makeslice: cap out of range")
		l := ex.concretizeSize(fr, fr.get(instr.Len), "makeslice: len out of range")
		if l > c {
			fr.rtPanic("makeslice", "makeslice: len larger than cap")
		}
		sl := make([]value, c)
		for i := range sl {
			sl[i] = zero(tElt)
		}
		fr.env[instr] = sl[:l]

	case *ssa.MakeChan:
		ex.nextObj++
		fr.env[instr] = chanValue{id: ex.nextObj}

	case *ssa.MakeMap:
		fr.env[instr] = makeMap(instr.Type().Underlying().(*types.Map).Key())

	case *ssa.Range:
		fr.env[instr] = ex.rangeIter(fr.get(instr.X), instr.X.Type())

	case *ssa.Next:
		fr.env[instr] = fr.get(instr.Iter).(iter).next()

	case *ssa.FieldAddr:
		p := fr.get(instr.X).(*value)
		if p == nil {
			fr.rtPanic("nil", "nil pointer dereference (field %d of %s)", instr.Field, instr.X.Type())
		}
		st, ok := (*p).(structure)
		if !ok {
			panic(engineError{fmt.Sprintf("FieldAddr on %T", *p)})
		}
		fr.env[instr] = &st[instr.Field]

	case *ssa.Field:
		st, ok := fr.get(instr.X).(structure)
		if !ok {
			panic(engineError{fmt.Sprintf("Field on %T", fr.get(instr.X))})
		}
		fr.env[instr] = st[instr.Field]

	case *ssa.IndexAddr:
		x := fr.get(instr.X)
		idx := fr.get(instr.Index)
		switch x := x.(type) {
		case []value:
			i := ex.concretizeIndex(fr, idx, len(x))
			fr.env[instr] = &x[i]
		case *value: // *array
			if x == nil {
				fr.rtPanic("nil", "nil pointer dereference (array index)")
			}
			a := (*x).(array)
			i := ex.concretizeIndex(fr, idx, len(a))
			fr.env[instr] = &a[i]
		default:
			panic(engineError{fmt.Sprintf("unexpected x type in IndexAddr: %T", x)})
		}

	case *ssa.Index:
		x := fr.get(instr.X)
		idx := fr.get(instr.Index)
		switch x := x.(type) {
		case array:
			fr.env[instr] = x[ex.concretizeIndex(fr, idx, len(x))]
		case string:
			fr.env[instr] = x[ex.concretizeIndex(fr, idx, len(x))]
		case symStr:
			fr.env[instr] = x[ex.concretizeIndex(fr, idx, len(x))]
		default:
			panic(engineError{fmt.Sprintf("unexpected x type in Index: %T", x)})
		}

	case *ssa.Lookup:
		fr.env[instr] = ex.lookup(fr, instr, fr.get(instr.X), fr.get(instr.Index))

	case *ssa.MapUpdate:
		m := fr.get(instr.Map).(*omap)
		if m == nil {
			fr.rtPanic("nilmap", "assignment to entry in nil map")
		}
		key := fr.get(instr.Key)
		if hasSym(key) {
			panic(engineError{"symbolic map key"})
		}
		ex.noteWrite(fr, m)
		m.insert(key, fr.get(instr.Value))

	case *ssa.TypeAssert:
		fr.env[instr] = ex.typeAssert(fr, instr, fr.get(instr.X).(iface))

	case *ssa.MakeClosure:
		var bindings []value
		for _, binding := range instr.Bindings {
			bindings = append(bindings, fr.get(binding))
		}
		fr.env[instr] = &closure{instr.Fn.(*ssa.Function), bindings}

	case *ssa.Phi:
		panic(engineError{"unreachable phi"})

	default:
		panic(engineError{fmt.Sprintf("unsupported instruction: %T", instr)})
	}
	return kNext
}

// prepareCall determines the function value and argument values for a
// function call in a Call, Go or Defer instruction, performing
// interface method lookup if needed.
func prepareCall(fr *frame, call *ssa.CallCommon) (fn value, args []value) {
	v := fr.get(call.Value)
	if call.Method == nil {
		fn = v
	} else {
		recv := v.(iface)
		if recv.t == nil {
			fr.rtPanic("nil", "method %s invoked on nil interface", call.Method.Name())
		}
		f := fr.ex.eng.Prog.LookupMethod(recv.t, call.Method.Pkg(), call.Method.Name())
		if f == nil {
			panic(engineError{fmt.Sprintf("method set for dynamic type %v does not contain %s", recv.t, call.Method)})
		}
		fn = f
		args = append(args, recv.v)
	}
	for _, arg := range call.Args {
		args = append(args, fr.get(arg))
	}
	return
}

// call interprets a call to a function (function, builtin or closure).
func (ex *Exec) call(caller *frame, callpos token.Pos, fn value, args []value) value {
	switch fn := fn.(type) {
	case *ssa.Function:
		if fn == nil {
			caller.rtPanic("nil", "call of nil function")
		}
		return ex.callSSA(caller, callpos, fn, args, nil)
	case *closure:
		return ex.callSSA(caller, callpos, fn.Fn, args, fn.Env)
	case *ssa.Builtin:
		return ex.callBuiltin(caller, callpos, fn, args)
	case boundMethod:
		return ex.callSSA(caller, callpos, fn.fn, append([]value{fn.recv}, args...), nil)
	}
	panic(engineError{fmt.Sprintf("cannot call %T", fn)})
}

func (ex *Exec) callSSA(caller *frame, callpos token.Pos, fn *ssa.Function, args []value, env []value) value {
	fr := &frame{
		ex:     ex,
		caller: caller,
		fn:     fn,
	}
	if fn.Blocks == nil || (fn.Pkg != nil && fn.Pkg != ex.eng.Pkg) {
		name := fn.String()
		if fn.Pkg == ex.eng.Pkg {
			name = "harness." + fn.Name()
		} else if fn.Name() == "init" && fn.Signature.Recv() == nil {
			return nil // initialisers of other packages are not run
		}
		if in := intrinsics[name]; in != nil {
			if caller != nil {
				fr.curInstr = caller.curInstr
			}
			return in(fr, args)
		}
		panic(engineError{"no model for external function: " + name})
	}
	if ex.eng.Trace {
		fmt.Printf("%*senter %s\n", depth(caller), "", fn)
	}
	ex.funcs[fn] = true
	fr.env = make(map[ssa.Value]value)
	fr.block = fn.Blocks[0]
	fr.locals = make([]value, len(fn.Locals))
	for i, l := range fn.Locals {
		fr.locals[i] = zero(mustDeref(l.Type()))
		fr.env[l] = &fr.locals[i]
	}
	for i, p := range fn.Params {
		fr.env[p] = args[i]
	}
	for i, fv := range fn.FreeVars {
		fr.env[fv] = env[i]
	}
	for fr.block != nil {
		runFrame(fr)
	}
	return fr.result
}

func depth(fr *frame) int {
	n := 0
	for ; fr != nil; fr = fr.caller {
		n++
	}
	return n
}

// runFrame executes SSA instructions starting at fr.block and
// continuing until a return, a panic, or a recovered panic.
func runFrame(fr *frame) {
	defer func() {
		if fr.block == nil {
			return // normal return
		}
		r := recover()
		if !isTargetPanic(r) {
			if re, ok := r.(runtime.Error); ok {
				buf := make([]byte, 4096)
				n := runtime.Stack(buf, false)
				panic(engineError{"engine runtime error: " + re.Error() + " in " + fr.where() + "\n" + string(buf[:n])})
			}
			panic(r) // engine control panic: propagate without running target defers
		}
		fr.panicking = true
		fr.panic = r
		fr.runDefers()
		fr.block = fr.fn.Recover
	}()

	for {
		if fr.visits == nil {
			fr.visits = make(map[*ssa.BasicBlock]int)
		}
		fr.visits[fr.block]++
		if fr.visits[fr.block] > fr.ex.eng.MaxLoop {
			panic(engineError{fmt.Sprintf("UNWIND-EXCEEDED: block %s of %s visited more than %d times", fr.block, fr.fn, fr.ex.eng.MaxLoop)})
		}
		nonPhis := executePhis(fr)
		for _, instr := range nonPhis {
			if fr.ex.eng.Trace {
				if v, ok := instr.(ssa.Value); ok {
					fmt.Printf("%*s  %s = %s\n", depth(fr.caller), "", v.Name(), instr)
				} else {
					fmt.Printf("%*s  %s\n", depth(fr.caller), "", instr)
				}
			}
			if visitInstr(fr, instr) == kReturn {
				return
			}
		}
	}
}

// executePhis executes the phi-nodes at the start of the current
// block and returns the non-phi instructions.
func executePhis(fr *frame) []ssa.Instruction {
	firstNonPhi := -1
	for i, instr := range fr.block.Instrs {
		if _, ok := instr.(*ssa.Phi); !ok {
			firstNonPhi = i
			break
		}
	}
	nonPhis := fr.block.Instrs[firstNonPhi:]
	if firstNonPhi > 0 {
		phis := fr.block.Instrs[:firstNonPhi]
		predIndex := slices.Index(fr.block.Preds, fr.prevBlock)
		fr.phitemps = fr.phitemps[:0]
		for _, phi := range phis {
			phi := phi.(*ssa.Phi)
			fr.phitemps = append(fr.phitemps, fr.get(phi.Edges[predIndex]))
		}
		for i, phi := range phis {
			fr.env[phi.(*ssa.Phi)] = fr.phitemps[i]
		}
	}
	return nonPhis
}

// doRecover implements the recover() built-in.
func doRecover(caller *frame) value {
	if caller != nil && !caller.panicking &&
		caller.caller != nil && caller.caller.panicking {
		caller.caller.panicking = false
		p := caller.caller.panic
		caller.caller.panic = nil
		switch p := p.(type) {
		case targetPanic:
			return p.v
		case runtimePanic:
			return iface{caller.ex.eng.ext.runtimeError, "runtime error: " + p.msg}
		default:
			panic(engineError{fmt.Sprintf("unexpected panic type %T in target call to recover()", p)})
		}
	}
	return iface{}
}

// ---------------------------------------------------------------------
// decisions

// decide picks one of n alternatives; lit(i) is the constraint under which
// alternative i is taken (nil = no constraint).  Alternatives are assumed to
// be mutually exclusive; exhaustiveness is the caller's business.
//
// In frontier mode ex.model is a model of the path condition: the
// alternative it satisfies is feasible without a query, the others are
// decided by the solver, and each feasible one is queued with its own model.
func (ex *Exec) decide(n int, lit func(i int) *Term) int {
	return ex.decideX(n, lit, false)
}

// decideX: when exhaustive is true the alternatives are known to cover every
// case, which allows the feasible ones to be enumerated from solver models
// (#feasible queries) instead of being checked one by one (n queries).
func (ex *Exec) decideX(n int, lit func(i int) *Term, exhaustive bool) int {
	if ex.pos < len(ex.vec) {
		c := ex.vec[ex.pos]
		ex.pos++
		if c >= n {
			panic(engineError{fmt.Sprintf("decision replay mismatch: choice %d of %d", c, n)})
		}
		if l := lit(c); l != nil {
			ex.assertPC(l)
		}
		return c
	}
	// frontier
	lits := make([]*Term, n)
	first := -1
	memo := make(map[*Term]uint64)
	for i := 0; i < n; i++ {
		l := lit(i)
		if l != nil && l.IsTrue() {
			l = nil
		}
		if l != nil {
			if kv, ok := ex.known[l]; ok {
				if kv {
					l = nil
				} else {
					l = ex.ts.Bool(false)
				}
			}
		}
		lits[i] = l
		if first < 0 && (l == nil || (!l.IsFalse() && l.Eval(ex.model, memo) != 0)) {
			first = i
		}
	}
	var feas []int
	var models []map[string]uint64
	if exhaustive && first >= 0 && lits[first] == nil {
		n = 0 // the path condition fixes this alternative; the others are excluded
	}
	if exhaustive && n > 2 && first >= 0 {
		// enumerate: block what was found, ask for another model
		block := ex.ts.Not(lits[first])
		found := map[int]bool{first: true}
		for len(found) < n {
			v, m := ex.solver.Check(block, ex.nvars)
			if v == Unknown {
				panic(engineError{"solver returned unknown on a feasibility query: " + ex.solver.LastErr})
			}
			if v == Unsat {
				break
			}
			memo := make(map[*Term]uint64)
			hit := -1
			for i := 0; i < n; i++ {
				if !found[i] && lits[i] != nil && !lits[i].IsFalse() && lits[i].Eval(m, memo) != 0 {
					hit = i
					break
				}
			}
			if hit < 0 {
				panic(engineError{"decision alternatives declared exhaustive are not"})
			}
			found[hit] = true
			feas = append(feas, hit)
			models = append(models, m)
			block = ex.ts.And(block, ex.ts.Not(lits[hit]))
		}
		sortFeas(feas, models)
		n = 0 // skip the one-by-one loop
	}
	for i := 0; i < n; i++ {
		if i == first {
			continue
		}
		l := lits[i]
		if l == nil {
			feas = append(feas, i)
			models = append(models, ex.model)
			continue
		}
		if l.IsFalse() {
			continue
		}
		v, m := ex.solver.Check(l, ex.nvars)
		switch v {
		case Sat:
			feas = append(feas, i)
			models = append(models, m)
		case Unsat:
			ex.learn(l, false)
		case Unknown:
			panic(engineError{"solver returned unknown on a feasibility query: " + ex.solver.LastErr})
		}
	}
	chosen := first
	if chosen < 0 {
		if len(feas) == 0 {
			panic(pathEnd{"infeasible"})
		}
		chosen = feas[0]
		ex.model = models[0]
		feas, models = feas[1:], models[1:]
	}
	if len(feas) > 0 {
		ex.transitions += len(feas) + 1
	}
	for k := len(feas) - 1; k >= 0; k-- {
		alt := make([]int, len(ex.vec)+1)
		copy(alt, ex.vec)
		alt[len(ex.vec)] = feas[k]
		ex.alts = append(ex.alts, WorkItem{Vec: alt, Model: models[k]})
	}
	ex.vec = append(ex.vec, chosen)
	ex.pos++
	if lits[chosen] != nil {
		ex.assertPC(lits[chosen])
	}
	return chosen
}

func (ex *Exec) assertPC(t *Term) {
	if t.IsTrue() {
		return
	}
	ex.pc = append(ex.pc, t)
	ex.solver.Assert(t)
	ex.learn(t, true)
}

// learn records literals whose truth value is fixed by the path condition.
func (ex *Exec) learn(t *Term, val bool) {
	if ex.known == nil {
		ex.known = make(map[*Term]bool)
	}
	ex.known[t] = val
	switch t.op {
	case "not":
		ex.learn(t.args[0], !val)
	case "and":
		if val {
			ex.learn(t.args[0], true)
			ex.learn(t.args[1], true)
		}
	case "or":
		if !val {
			ex.learn(t.args[0], false)
			ex.learn(t.args[1], false)
		}
	}
}

// branch decides a symbolic condition.
func (ex *Exec) branch(c *Term) bool {
	if c.IsConst() {
		return c.val != 0
	}
	nc := ex.ts.Not(c)
	return ex.decide(2, func(i int) *Term {
		if i == 0 {
			return c
		}
		return nc
	}) == 0
}

// kinds

func kindInfo(k types.BasicKind) (w int, signed bool) {
	switch k {
	case types.Bool, types.UntypedBool:
		return 0, false
	case types.Int, types.Int64, types.UntypedInt:
		return 64, true
	case types.Int8:
		return 8, true
	case types.Int16:
		return 16, true
	case types.Int32, types.UntypedRune:
		return 32, true
	case types.Uint, types.Uint64, types.Uintptr:
		return 64, false
	case types.Uint8:
		return 8, false
	case types.Uint16:
		return 16, false
	case types.Uint32:
		return 32, false
	}
	panic(unsupportedf("kindInfo: kind %d", k))
}

func kindOfValue(x value) (types.BasicKind, bool) {
	switch x := x.(type) {
	case bool:
		return types.Bool, true
	case int:
		return types.Int, true
	case int8:
		return types.Int8, true
	case int16:
		return types.Int16, true
	case int32:
		return types.Int32, true
	case int64:
		return types.Int64, true
	case uint:
		return types.Uint, true
	case uint8:
		return types.Uint8, true
	case uint16:
		return types.Uint16, true
	case uint32:
		return types.Uint32, true
	case uint64:
		return types.Uint64, true
	case uintptr:
		return types.Uintptr, true
	case sym:
		return x.k, true
	}
	return 0, false
}

// term lifts a scalar value to a term.
func (ex *Exec) term(x value) *Term {
	switch x := x.(type) {
	case sym:
		return x.t
	case bool:
		return ex.ts.Bool(x)
	case int:
		return ex.ts.Const(64, uint64(x))
	case int8:
		return ex.ts.Const(8, uint64(x))
	case int16:
		return ex.ts.Const(16, uint64(x))
	case int32:
		return ex.ts.Const(32, uint64(x))
	case int64:
		return ex.ts.Const(64, uint64(x))
	case uint:
		return ex.ts.Const(64, uint64(x))
	case uint8:
		return ex.ts.Const(8, uint64(x))
	case uint16:
		return ex.ts.Const(16, uint64(x))
	case uint32:
		return ex.ts.Const(32, uint64(x))
	case uint64:
		return ex.ts.Const(64, x)
	case uintptr:
		return ex.ts.Const(64, uint64(x))
	}
	panic(unsupportedf("term: cannot lift %T", x))
}

// mkval wraps a term as a value of basic kind k, concretising constants.
func (ex *Exec) mkval(k types.BasicKind, t *Term) value {
	if t.IsConst() {
		return concreteOfKind(k, t.val)
	}
	return sym{k: k, t: t}
}

func concreteOfKind(k types.BasicKind, v uint64) value {
	switch k {
	case types.Bool, types.UntypedBool:
		return v != 0
	case types.Int, types.UntypedInt:
		return int(v)
	case types.Int8:
		return int8(v)
	case types.Int16:
		return int16(v)
	case types.Int32, types.UntypedRune:
		return int32(v)
	case types.Int64:
		return int64(v)
	case types.Uint:
		return uint(v)
	case types.Uint8:
		return uint8(v)
	case types.Uint16:
		return uint16(v)
	case types.Uint32:
		return uint32(v)
	case types.Uint64:
		return v
	case types.Uintptr:
		return uintptr(v)
	}
	panic(unsupportedf("concreteOfKind: kind %d", k))
}

func hasSym(v value) bool {
	switch v := v.(type) {
	case sym, symStr:
		return true
	case iface:
		return hasSym(v.v)
	case structure:
		for _, e := range v {
			if hasSym(e) {
				return true
			}
		}
	case array:
		for _, e := range v {
			if hasSym(e) {
				return true
			}
		}
	}
	return false
}

// concretize forks over the values lo..hi of a symbolic integer, plus one
// "outside" alternative.  It returns the chosen value and whether it is
// inside the range.
func (ex *Exec) concretize(x sym, lo, hi int64) (int64, bool) {
	w, signed := kindInfo(x.k)
	n := int(hi-lo) + 1
	if n < 0 {
		n = 0
	}
	c := ex.decideX(n+1, func(i int) *Term {
		if i < n {
			return ex.ts.Eq(x.t, ex.ts.Const(w, uint64(lo+int64(i))))
		}
		// outside
		if n == 0 {
			return nil
		}
		var below, above *Term
		if signed {
			below = ex.ts.Cmp("bvslt", x.t, ex.ts.Const(w, uint64(lo)))
			above = ex.ts.Cmp("bvsgt", x.t, ex.ts.Const(w, uint64(hi)))
		} else {
			if lo > 0 {
				below = ex.ts.Cmp("bvult", x.t, ex.ts.Const(w, uint64(lo)))
			} else {
				below = ex.ts.Bool(false)
			}
			above = ex.ts.Cmp("bvugt", x.t, ex.ts.Const(w, uint64(hi)))
		}
		return ex.ts.Or(below, above)
	}, n > 0)
	if c < n {
		return lo + int64(c), true
	}
	return 0, false
}

func (ex *Exec) concretizeIndex(fr *frame, idx value, n int) int {
	if s, ok := idx.(sym); ok {
		v, in := ex.concretize(s, 0, int64(n)-1)
		if !in {
			fr.rtPanic("index", "index out of range [symbolic] with length %d", n)
		}
		return int(v)
	}
	i := asInt64(idx)
	if i < 0 || i >= int64(n) {
		fr.rtPanic("index", "index out of range [%d] with length %d", i, n)
	}
	return int(i)
}

const maxSymbolicSize = 96

func (ex *Exec) concretizeSize(fr *frame, v value, msg string) int {
	if s, ok := v.(sym); ok {
		// negative sizes panic in Go; very large ones are outside the claim.
		_, signed := kindInfo(s.k)
		w, _ := kindInfo(s.k)
		if signed {
			neg := ex.ts.Cmp("bvslt", s.t, ex.ts.Const(w, 0))
			if ex.branch(neg) {
				fr.rtPanic("makeslice", "%s", msg)
			}
		}
		x, in := ex.concretize(s, 0, maxSymbolicSize)
		if !in {
			panic(pathEnd{"size beyond bound"})
		}
		return int(x)
	}
	i := asInt64(v)
	if i < 0 {
		fr.rtPanic("makeslice", "%s", msg)
	}
	if i > 1<<20 {
		panic(engineError{"allocation too large for the engine"})
	}
	return int(i)
}

// ---------------------------------------------------------------------

// noteWrite is a hook for write tracking (frozen regions, lock discipline).
func (ex *Exec) noteWrite(fr *frame, addr interface{}) {
	if ex.frozen != nil {
		ex.checkFrozenWrite(fr, addr)
	}
	if ex.hooks != nil {
		ex.hooks.noteWrite(fr, addr)
	}
}

func sortFeas(feas []int, models []map[string]uint64) {
	for i := 1; i < len(feas); i++ {
		for j := i; j > 0 && feas[j] < feas[j-1]; j-- {
			feas[j], feas[j-1] = feas[j-1], feas[j]
			models[j], models[j-1] = models[j-1], models[j]
		}
	}
}
