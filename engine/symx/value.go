// Copyright 2013 The Go Authors. All rights reserved.
// Use of this source code is governed by a BSD-style
// license that can be found in the LICENSE file.
//
// This file derives from golang.org/x/tools/go/ssa/interp (value.go, map.go)
// and was modified for symbolic execution: symbolic scalars, symbolic
// strings, deterministic (insertion-ordered) maps.

package symx

// Values
//
// All interpreter values are "boxed" in the empty interface, value.
// The range of possible dynamic types within value are:
//
// - bool
// - numbers (all built-in int/float/complex types are distinguished)
// - string
// - sym      --- a symbolic bool or integer (an SMT term plus its Go basic kind)
// - symStr   --- a string of concrete length whose bytes may be symbolic
// - *omap    --- maps (insertion-ordered, linear lookup)
// - []value --- slices
// - iface --- interfaces.
// - structure --- structs.  Fields are ordered and accessed by numeric indices.
// - array --- arrays.
// - *value --- pointers.  Careful: *value is a distinct type from *array etc.
// - *ssa.Function \
//   *ssa.Builtin   } --- functions.  A nil 'func' is always of type *ssa.Function.
//   *closure      /
// - tuple --- as returned by Return, Next, "value,ok" modes, etc.
// - iter --- iterators from 'range' over map or string.
// - bad --- a poison pill for locals that have gone out of scope.
// - rtype -- the engine's model of reflect.Type (payload of an iface)
// - rvalue -- the engine's model of reflect.Value
// - **deferred -- the address of a frame's defer stack for a Defer._Stack.
//
// Note that nil is not on this list.

import (
	"bytes"
	"fmt"
	"go/types"
	"strings"
	"unsafe"

	"golang.org/x/tools/go/ssa"
)

type value interface{}

type tuple []value

type array []value

type iface struct {
	t types.Type // never an "untyped" type
	v value
}

type structure []value

// sym is a symbolic scalar: Bool (w==0) or an integer of basic kind k.
type sym struct {
	k types.BasicKind
	t *Term
}

// symStr is a string of concrete length; each byte is uint8 or sym(Uint8).
type symStr []value

// For map, array, *array, slice, string or channel.
type iter interface {
	// next returns a Tuple (key, value, ok).
	next() tuple
}

type closure struct {
	Fn  *ssa.Function
	Env []value
}

type bad struct{}

// omap is a deterministic map: insertion-ordered, linear search.
type omap struct {
	keyType types.Type
	keys    []value
	vals    []value
}

func makeMap(kt types.Type) *omap {
	return &omap{keyType: kt}
}

func (m *omap) find(k value) int {
	if m == nil {
		return -1
	}
	for i, kk := range m.keys {
		if equalsConcrete(m.keyType, kk, k) {
			return i
		}
	}
	return -1
}

func (m *omap) lookup(k value) (value, bool) {
	if i := m.find(k); i >= 0 {
		return m.vals[i], true
	}
	return nil, false
}

func (m *omap) insert(k, v value) {
	if i := m.find(k); i >= 0 {
		m.vals[i] = v
		return
	}
	m.keys = append(m.keys, k)
	m.vals = append(m.vals, v)
}

func (m *omap) delete(k value) {
	if i := m.find(k); i >= 0 {
		m.keys = append(m.keys[:i:i], m.keys[i+1:]...)
		m.vals = append(m.vals[:i:i], m.vals[i+1:]...)
	}
}

func (m *omap) len() int {
	if m == nil {
		return 0
	}
	return len(m.keys)
}

// nil-tolerant variant of types.Identical.
func sameType(x, y types.Type) bool {
	if x == nil {
		return y == nil
	}
	return y != nil && types.Identical(x, y)
}

type unsupported struct{ msg string }

// uncomparable: == on interface values whose dynamic type is a slice, map or
// function (a run-time panic in Go).
type uncomparable struct{ t types.Type }

func unsupportedf(format string, args ...interface{}) unsupported {
	return unsupported{fmt.Sprintf(format, args...)}
}

// equalsConcrete returns true iff x and y are equal according to Go's
// equivalence relation for type t; symbolic operands are not allowed.
func equalsConcrete(t types.Type, x, y value) bool {
	switch x := x.(type) {
	case bool:
		return x == y.(bool)
	case int:
		return x == y.(int)
	case int8:
		return x == y.(int8)
	case int16:
		return x == y.(int16)
	case int32:
		return x == y.(int32)
	case int64:
		return x == y.(int64)
	case uint:
		return x == y.(uint)
	case uint8:
		return x == y.(uint8)
	case uint16:
		return x == y.(uint16)
	case uint32:
		return x == y.(uint32)
	case uint64:
		return x == y.(uint64)
	case uintptr:
		return x == y.(uintptr)
	case float32:
		return x == y.(float32)
	case float64:
		return x == y.(float64)
	case complex64:
		return x == y.(complex64)
	case complex128:
		return x == y.(complex128)
	case string:
		if ys, ok := y.(string); ok {
			return x == ys
		}
	case *value:
		return x == y.(*value)
	case structure:
		ys := y.(structure)
		tStruct := t.Underlying().(*types.Struct)
		for i, n := 0, tStruct.NumFields(); i < n; i++ {
			if f := tStruct.Field(i); f.Name() != "_" {
				if !equalsConcrete(f.Type(), x[i], ys[i]) {
					return false
				}
			}
		}
		return true
	case array:
		ys := y.(array)
		tElt := t.Underlying().(*types.Array).Elem()
		for i, xi := range x {
			if !equalsConcrete(tElt, xi, ys[i]) {
				return false
			}
		}
		return true
	case iface:
		ys := y.(iface)
		return sameType(x.t, ys.t) && (x.t == nil || equalsConcrete(x.t, x.v, ys.v))
	case rtype:
		return types.Identical(x.t, y.(rtype).t)
	case unsafe.Pointer:
		return x == y.(unsafe.Pointer)
	case chanValue:
		return x == y.(chanValue)
	}
	switch x.(type) {
	case []value, *omap, *ssa.Function, *closure:
		panic(uncomparable{t})
	}
	panic(unsupportedf("comparison of %T with %T at type %s", x, y, t))
}

// load returns the value of type T in *addr.
func load(T types.Type, addr *value) value {
	switch T := T.Underlying().(type) {
	case *types.Struct:
		v, ok := (*addr).(structure)
		if !ok {
			return *addr // opaque model values (rvalue)
		}
		a := make(structure, len(v))
		for i := range a {
			a[i] = load(T.Field(i).Type(), &v[i])
		}
		return a
	case *types.Array:
		v := (*addr).(array)
		a := make(array, len(v))
		for i := range a {
			a[i] = load(T.Elem(), &v[i])
		}
		return a
	default:
		return *addr
	}
}

// store stores value v of type T into *addr.
func store(T types.Type, addr *value, v value) {
	switch T := T.Underlying().(type) {
	case *types.Struct:
		lhs, ok := (*addr).(structure)
		rhs, ok2 := v.(structure)
		if !ok || !ok2 {
			*addr = v // opaque model values (rvalue)
			return
		}
		for i := range lhs {
			store(T.Field(i).Type(), &lhs[i], rhs[i])
		}
	case *types.Array:
		lhs := (*addr).(array)
		rhs := v.(array)
		for i := range lhs {
			store(T.Elem(), &lhs[i], rhs[i])
		}
	default:
		*addr = v
	}
}

// copyVal makes an unaliased copy of an aggregate value.
func copyVal(v value) value {
	switch v := v.(type) {
	case structure:
		a := make(structure, len(v))
		for i := range a {
			a[i] = copyVal(v[i])
		}
		return a
	case array:
		a := make(array, len(v))
		for i := range a {
			a[i] = copyVal(v[i])
		}
		return a
	}
	return v
}

func writeValue(buf *bytes.Buffer, v value, depth int) {
	if depth > 6 {
		buf.WriteString("...")
		return
	}
	switch v := v.(type) {
	case nil, bool, int, int8, int16, int32, int64, uint, uint8, uint16, uint32, uint64, uintptr, float32, float64, complex64, complex128:
		fmt.Fprintf(buf, "%v", v)
	case string:
		fmt.Fprintf(buf, "%q", v)
	case sym:
		fmt.Fprintf(buf, "sym(%s)", v.t)
	case symStr:
		buf.WriteString("symstr[")
		for i, b := range v {
			if i > 0 {
				buf.WriteByte(' ')
			}
			writeValue(buf, b, depth+1)
		}
		buf.WriteString("]")
	case *omap:
		buf.WriteString("map[")
		if v != nil {
			for i := range v.keys {
				if i > 0 {
					buf.WriteByte(' ')
				}
				writeValue(buf, v.keys[i], depth+1)
				buf.WriteString(":")
				writeValue(buf, v.vals[i], depth+1)
			}
		}
		buf.WriteString("]")
	case *value:
		if v == nil {
			buf.WriteString("<nil>")
		} else {
			fmt.Fprintf(buf, "&")
			writeValue(buf, *v, depth+1)
		}
	case iface:
		if v.t == nil {
			buf.WriteString("nil")
			return
		}
		fmt.Fprintf(buf, "(%s, ", v.t)
		writeValue(buf, v.v, depth+1)
		buf.WriteString(")")
	case structure:
		buf.WriteString("{")
		for i, e := range v {
			if i > 0 {
				buf.WriteString(" ")
			}
			writeValue(buf, e, depth+1)
		}
		buf.WriteString("}")
	case array:
		buf.WriteString("[")
		for i, e := range v {
			if i > 0 {
				buf.WriteString(" ")
			}
			writeValue(buf, e, depth+1)
		}
		buf.WriteString("]")
	case []value:
		buf.WriteString("[")
		for i, e := range v {
			if i > 0 {
				buf.WriteString(" ")
			}
			writeValue(buf, e, depth+1)
		}
		buf.WriteString("]")
	case *ssa.Function:
		if v == nil {
			buf.WriteString("func(nil)")
		} else {
			buf.WriteString(v.String())
		}
	case *ssa.Builtin:
		buf.WriteString(v.Name())
	case *closure:
		buf.WriteString("closure " + v.Fn.String())
	case rtype:
		buf.WriteString(v.t.String())
	case tuple:
		buf.WriteString("(")
		for i, e := range v {
			if i > 0 {
				buf.WriteString(", ")
			}
			writeValue(buf, e, depth+1)
		}
		buf.WriteString(")")
	default:
		fmt.Fprintf(buf, "<%T>", v)
	}
}

func toString(v value) string {
	var b bytes.Buffer
	writeValue(&b, v, 0)
	return b.String()
}

// ------------------------------------------------------------------------
// Iterators

type stringIter struct {
	*strings.Reader
	i int
}

func (it *stringIter) next() tuple {
	okv := make(tuple, 3)
	ch, n, err := it.ReadRune()
	ok := err == nil
	okv[0] = ok
	if ok {
		okv[1] = it.i
		okv[2] = ch
	}
	it.i += n
	return okv
}

type mapIter struct {
	keys []value
	vals []value
	i    int
}

func (it *mapIter) next() tuple {
	if it.i >= len(it.keys) {
		return []value{false, nil, nil}
	}
	k, v := it.keys[it.i], it.vals[it.i]
	it.i++
	return []value{true, k, v}
}
