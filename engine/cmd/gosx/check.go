package main

import (
	"bufio"
	"bytes"
	"encoding/json"
	"flag"
	"fmt"
	"os"
	"os/exec"
	"path/filepath"
	"regexp"
	"runtime"
	"sort"
	"strings"
	"time"

	"gosx/symx"
)

func runCmd(dir string, env []string, name string, args ...string) (string, error) {
	cmd := exec.Command(name, args...)
	cmd.Dir = dir
	cmd.Env = append(os.Environ(), "GOFLAGS=-mod=mod", "GOPROXY=off", "GOSUMDB=off", "GOTOOLCHAIN=local")
	cmd.Env = append(cmd.Env, env...)
	var buf bytes.Buffer
	cmd.Stdout = &buf
	cmd.Stderr = &buf
	err := cmd.Run()
	return buf.String(), err
}

// ---------------------------------------------------------------------
// known findings

type knownFinding struct {
	Property string
	Key      string
	Desc     string
}

func loadKnownFindings() []knownFinding {
	f, err := os.Open(filepath.Join(verifDir, "KNOWN_FINDINGS.txt"))
	if err != nil {
		return nil
	}
	defer f.Close()
	var out []knownFinding
	re := regexp.MustCompile(`^known:\s+property=(\S+)\s+key=(\S+)\s*(.*)$`)
	sc := bufio.NewScanner(f)
	for sc.Scan() {
		m := re.FindStringSubmatch(strings.TrimSpace(sc.Text()))
		if m != nil {
			out = append(out, knownFinding{m[1], m[2], m[3]})
		}
	}
	return out
}

func violationKey(spec symx.CaseSpec, v *symx.Violation) string {
	label := v.Case
	if label == "" || v.Kind == "race" {
		label = "-" // races are identified by the pair of code sites
	}
	id := v.ID
	if strings.HasPrefix(id, "panic:native:") {
		id = "panic:native"
	}
	key := spec.Harness + "/" + label + "/" + id
	return sanitizeKey(key)
}

func sanitizeKey(s string) string {
	s = strings.ReplaceAll(s, "github.com/JesseCoretta/go-stackage.", "")
	var b strings.Builder
	for _, r := range s {
		switch {
		case r == ' ' || r == '\t':
			b.WriteByte('_')
		default:
			b.WriteRune(r)
		}
	}
	return b.String()
}

func fileSafe(s string) string {
	var b strings.Builder
	for _, r := range s {
		switch {
		case r >= 'a' && r <= 'z', r >= 'A' && r <= 'Z', r >= '0' && r <= '9', r == '-', r == '_', r == '.':
			b.WriteRune(r)
		default:
			b.WriteByte('_')
		}
	}
	if b.Len() > 150 {
		return b.String()[:150]
	}
	return b.String()
}

// ---------------------------------------------------------------------
// check

type evidence struct {
	PropertyID  string                 `json:"property_id"`
	Tier        string                 `json:"tier"`
	Seed        int                    `json:"seed"`
	Level       string                 `json:"level"`
	Coverage    map[string]interface{} `json:"coverage"`
	Assumptions []string               `json:"assumptions"`
	WallS       float64                `json:"wall_s"`
	Violations  int                    `json:"violations"`
}

func cmdCheck(args []string) int {
	if len(args) < 1 {
		usage()
	}
	id := args[0]
	fs := flag.NewFlagSet("check", flag.ExitOnError)
	tier := fs.String("tier", envOr("VERIF_TIER", "quick"), "quick|thorough")
	workers := fs.Int("workers", runtime.NumCPU(), "parallel workers")
	keep := fs.Bool("keep-transcripts", false, "keep solver transcripts under /verif/.work")
	fs.Parse(args[1:])
	seed := 0
	fmt.Sscan(os.Getenv("VERIF_SEED"), &seed)
	prop, ok := properties[id]
	if !ok {
		fatal(fmt.Errorf("unknown property %s", id))
	}
	start := time.Now()
	schedReplay = prop.sched
	eng := loadEngine()
	harnessNamesCache = allHarnessNames(eng)
	loadT := time.Since(start)

	cases := prop.cases(*tier, seed)
	cases = append(cases, symx.CaseSpec{Harness: "VH_Canary"})
	lim := symx.Limits{MaxPaths: prop.maxPaths(*tier)}
	trDir := ""
	if *keep {
		trDir = filepath.Join(verifDir, ".work", "transcripts-"+id)
		os.MkdirAll(trDir, 0o755)
	}
	results, sstats := eng.Explore(cases, *workers, lim, trDir)
	exploreT := time.Since(start) - loadT

	// split off the canary
	canary := results[len(results)-1]
	results = results[:len(results)-1]
	cases = cases[:len(cases)-1]

	var inconclusive []string
	for _, r := range results {
		inconclusive = append(inconclusive, r.Inconclusive...)
		if r.Paths == 0 && len(r.Violations) == 0 && len(r.Inconclusive) == 0 {
			inconclusive = append(inconclusive, fmt.Sprintf("%s: vacuous: no path completed (all %d killed by assumptions)", r.Spec, r.Killed))
		}
		if r.Paths > 0 && r.Reached["end"] == 0 && len(r.Violations) == 0 {
			inconclusive = append(inconclusive, fmt.Sprintf("%s: vacuous: no path reached the end marker", r.Spec))
		}
	}
	if sstats.Unknown > 0 || sstats.Errors > 0 {
		inconclusive = append(inconclusive, fmt.Sprintf("solver: %d unknown answers, %d error lines", sstats.Unknown, sstats.Errors))
	}

	// native validation: all witnesses + all violations + canary, one go test run
	rep, err := nativeReplay(append(append([]*symx.CaseResult{}, results...), canary))
	if err != nil {
		fmt.Println("INCONCLUSIVE native replay failed:", err)
		return 2
	}
	canaryOK := false
	var confirmed []confirmedViolation
	for _, c := range rep.confirmed {
		if c.Spec.Harness == "VH_Canary" {
			if c.V.ID == "canary" {
				canaryOK = true
			}
			continue
		}
		confirmed = append(confirmed, c)
	}
	if !canaryOK {
		inconclusive = append(inconclusive, "canary: the deliberately false assertion was not found and reproduced")
	}
	known := loadKnownFindings()
	isKnown := func(key string) bool {
		for _, k := range known {
			if k.Property == id && k.Key == key {
				return true
			}
		}
		return false
	}
	for _, u := range rep.unconfirmedV {
		if u.Spec.Harness == "VH_Canary" {
			continue
		}
		if isKnown(violationKey(u.Spec, u.V)) {
			// a listed finding that the engine found again; its native
			// confirmation (established when it was listed) can be
			// timing dependent for race-detector runs
			confirmed = append(confirmed, u)
			continue
		}
		inconclusive = append(inconclusive, "ENGINE-MISMATCH (counterexample did not reproduce natively): "+u.Detail)
	}
	for _, m := range rep.mismatches {
		inconclusive = append(inconclusive, "ENGINE-MISMATCH: "+m)
	}

	// classify violations against the known-findings list
	knownHit := map[string]knownFinding{}
	type newViol struct {
		key string
		c   confirmedViolation
	}
	var fresh []newViol
	seenKey := map[string]bool{}
	for _, c := range confirmed {
		key := violationKey(c.Spec, c.V)
		if seenKey[key] {
			continue
		}
		seenKey[key] = true
		matched := false
		for _, k := range known {
			if k.Property == id && k.Key == key {
				knownHit[key] = k
				matched = true
				break
			}
		}
		if !matched {
			fresh = append(fresh, newViol{key, c})
		}
	}
	sort.Slice(fresh, func(i, j int) bool { return fresh[i].key < fresh[j].key })

	// output
	exit := 0
	var keys []string
	for k := range knownHit {
		keys = append(keys, k)
	}
	sort.Strings(keys)
	for _, k := range keys {
		fmt.Printf("KNOWN-FINDING: property=%s %s %s\n", id, k, knownHit[k].Desc)
	}
	repDir := filepath.Join(verifDir, "replays", id)
	os.RemoveAll(repDir) // replay files describe this run only
	for _, nv := range fresh {
		os.MkdirAll(repDir, 0o755)
		path := filepath.Join(repDir, fileSafe(nv.key)+".json")
		expect := nv.c.V.Kind + ":" + nv.c.V.ID
		switch nv.c.V.Kind {
		case "panic":
			expect = "panic"
		case "write", "race":
			expect = "race"
		}
		rf := replayFile{Sched: schedOf(nv.c.V, prop.sched), Property: id, Key: nv.key, Harness: nv.c.Spec.Harness, Params: nv.c.Spec.Params, Vector: nv.c.V.Vector, Kinds: nv.c.V.Kinds, Expect: expect, Msg: nv.c.V.Msg + " | native: " + nv.c.Native + " " + nv.c.Detail}
		b, _ := json.MarshalIndent(rf, "", " ")
		os.WriteFile(path, b, 0o644)
		fmt.Printf("VIOLATION property=%s replay=%s\n", id, path)
		fmt.Printf("  key=%s\n  %s\n  inputs=%v\n", nv.key, nv.c.V.Msg, nv.c.V.Vector)
		exit = 1
	}
	if exit == 0 && len(inconclusive) > 0 {
		exit = 2
	}
	for i, m := range inconclusive {
		if i >= 12 {
			fmt.Printf("INCONCLUSIVE ... and %d more\n", len(inconclusive)-i)
			break
		}
		fmt.Println("INCONCLUSIVE", m)
	}

	// evidence
	paths, trans, oblig, steps, killed := 0, 0, 0, 0, 0
	funcs := map[string]bool{}
	asserts := map[string]int{}
	var samples []interface{}
	for _, r := range results {
		if os.Getenv("GOSX_DEBUG") != "" && r.Paths != len(r.Witnesses) {
			fmt.Printf("DEBUG %s paths=%d witnesses=%d\n", r.Spec, r.Paths, len(r.Witnesses))
		}
		paths += r.Paths
		trans += r.Transitions
		oblig += r.Obligations
		steps += r.Steps
		killed += r.Killed
		for f := range r.Funcs {
			funcs[strings.ReplaceAll(f, "github.com/JesseCoretta/go-stackage.", "")] = true
		}
		for k, n := range r.Asserts {
			asserts[k] += n
		}
		if r.Sample != "" && len(samples) < 6 {
			samples = append(samples, r.Sample)
		}
	}
	for _, nv := range fresh {
		if len(samples) < 12 {
			samples = append(samples, map[string]interface{}{"violation": nv.key, "harness": nv.c.Spec.String(), "inputs": nv.c.V.Vector})
		}
	}
	if len(samples) == 0 {
		samples = append(samples, "no completed path")
	}
	var fnames []string
	for f := range funcs {
		if !strings.HasPrefix(f, "VH_") && !strings.HasPrefix(f, "vh") {
			fnames = append(fnames, f)
		}
	}
	sort.Strings(fnames)
	var caseNames []string
	for _, c := range cases {
		caseNames = append(caseNames, c.String())
	}
	if trans < 1 {
		trans = 1
	}
	ev := evidence{
		PropertyID: id, Tier: *tier, Seed: seed, Level: "model_checking",
		Coverage: map[string]interface{}{
			"states":                        maxInt(paths, 1),
			"transitions":                   trans,
			"traces_validated_against_impl": rep.validated,
			"samples":                       samples,
			"explanation":                   "states = execution paths of the harness through the real code's SSA completed under the stated shape bounds; transitions = solver-decided forks; every completed path's model was re-run against the natively compiled package and its observations compared",
			"cases":                         caseNames,
			"bounds":                        prop.bounds(*tier),
			"outside_bounds":                prop.outside,
			"paths_completed":               paths,
			"paths_pruned_by_assumption":    killed,
			"assertion_instances_discharged_by_solver": oblig,
			"assertions_discharged":         asserts,
			"ssa_instructions_executed":     steps,
			"functions_encoded":             fnames,
			"solver":                        map[string]interface{}{"binary": "z3 (" + symx.SolverBinary + " -in)", "queries": sstats.Queries, "sat": sstats.Sat, "unsat": sstats.Unsat, "unknown": sstats.Unknown, "error_lines": sstats.Errors, "time_s": sstats.Time.Seconds(), "max_query_s": sstats.MaxQuery.Seconds()},
			"canary_found_and_reproduced":   canaryOK,
			"violations_confirmed_natively": len(confirmed),
			"known_findings_hit":            keys,
			"inconclusive":                  inconclusive,
			"timing_s":                      map[string]float64{"load_ssa": loadT.Seconds(), "explore": exploreT.Seconds(), "native_replay": rep.wall.Seconds()},
			"exhaustive":                    len(inconclusive) == 0,
		},
		Assumptions: append(append([]string{}, prop.assumptions...), commonAssumptions...),
		WallS:       time.Since(start).Seconds(),
		Violations:  len(fresh),
	}
	os.MkdirAll(filepath.Join(verifDir, "evidence"), 0o755)
	b, _ := json.MarshalIndent(ev, "", " ")
	os.WriteFile(filepath.Join(verifDir, "evidence", id+".json"), b, 0o644)

	fmt.Printf("%s %s: cases=%d paths=%d pruned=%d forks=%d solver-discharged=%d queries=%d (sat %d, unsat %d, unknown %d) solver=%.1fs validated-natively=%d known=%d new=%d wall=%.1fs\n",
		id, *tier, len(cases), paths, killed, trans, oblig, sstats.Queries, sstats.Sat, sstats.Unsat, sstats.Unknown, sstats.Time.Seconds(), rep.validated, len(knownHit), len(fresh), time.Since(start).Seconds())
	if exit == 0 {
		fmt.Printf("PASS property=%s\n", id)
	}
	return exit
}

func maxInt(a, b int) int {
	if a > b {
		return a
	}
	return b
}

var commonAssumptions = []string{
	"int is 64 bits (amd64); all integer arithmetic is modelled as wrapping bit-vectors, never as mathematical integers",
	"the shape of the heap (slice lengths, dynamic types, nil-ness) is concrete on every path and enumerated by forks/shape parameters; only scalar contents are solver variables",
	"external packages are modelled by /verif/engine/symx/intrinsics.go and reflectm.go (strings, strconv, unicode, errors, fmt, sync.Mutex, time, math/rand, log, reflect); every counterexample and every passing path is re-run natively, so a wrong model shows up as ENGINE-MISMATCH rather than as a verdict",
	"package initialisers of dependencies are not executed; the package under test's own initialiser is",
	"sequentially consistent single-thread execution unless the harness starts engine threads",
}

// cmdSolverDiff records the complete query stream of a property's quick run
// (one SMT-LIB2 transcript per worker) and replays it through z3 5.1.0
// (z3-new) and cvc5; every verdict must agree with the one z3 4.8.12 gave.
func cmdSolverDiff(args []string) int {
	if len(args) < 1 {
		usage()
	}
	id := args[0]
	fs := flag.NewFlagSet("solverdiff", flag.ExitOnError)
	maxQ := fs.Int("max-queries", 4000, "queries replayed per transcript")
	fs.Parse(args[1:])
	prop, ok := properties[id]
	if !ok {
		fatal(fmt.Errorf("unknown property %s", id))
	}
	eng := loadEngine()
	dir := filepath.Join(runDir, "transcripts")
	os.MkdirAll(dir, 0o755)
	cases := prop.cases("quick", 0)
	if len(cases) > 40 {
		cases = cases[:40]
	}
	_, st := eng.Explore(cases, 8, symx.Limits{MaxPaths: 3000}, dir)
	fmt.Printf("recorded %d queries from %d cases of %s\n", st.Queries, len(cases), id)
	files, _ := filepath.Glob(filepath.Join(dir, "*.smt2"))
	total, disagree := 0, 0
	for _, f := range files {
		ab, err := os.ReadFile(f + ".answers")
		if err != nil {
			continue
		}
		want := strings.Fields(string(ab))
		script, n := truncateTranscript(f, *maxQ)
		want = want[:n]
		for _, sv := range [][]string{{"z3-new", "-in"}, {"cvc5", "--incremental", "--lang", "smt2"}} {
			got, err := runSolverOn(sv, script)
			if err != nil {
				fmt.Printf("  %s on %s: %v\n", sv[0], filepath.Base(f), err)
				disagree++
				continue
			}
			if len(got) != len(want) {
				fmt.Printf("  %s on %s: %d answers, expected %d\n", sv[0], filepath.Base(f), len(got), len(want))
				disagree++
				continue
			}
			for i := range want {
				total++
				if got[i] != want[i] {
					disagree++
					if disagree < 10 {
						fmt.Printf("  DISAGREE %s query %d of %s: z3 4.8.12 %s, %s %s\n", sv[0], i, filepath.Base(f), want[i], sv[0], got[i])
					}
				}
			}
		}
	}
	fmt.Printf("solverdiff %s: %d verdicts compared against z3-new 5.1.0 and cvc5, %d disagreements\n", id, total, disagree)
	if disagree > 0 {
		return 2
	}
	return 0
}

// truncateTranscript cuts the transcript after maxQ check-sat commands at a
// point where the push/pop depth is zero; returns the script and the number
// of check-sats it contains.
func truncateTranscript(path string, maxQ int) (string, int) {
	b, _ := os.ReadFile(path)
	lines := strings.Split(string(b), "\n")
	var out []string
	depth, q := 0, 0
	for _, l := range lines {
		out = append(out, l)
		switch {
		case strings.HasPrefix(l, "(push"):
			depth++
		case strings.HasPrefix(l, "(pop"):
			depth--
			if depth == 0 && q >= maxQ {
				return strings.Join(out, "\n") + "\n", q
			}
		case l == "(check-sat)":
			q++
		}
	}
	return strings.Join(out, "\n") + "\n", q
}

func runSolverOn(argv []string, script string) ([]string, error) {
	if argv[0] == "cvc5" {
		script = "(set-logic QF_BV)\n" + script
	}
	cmd := exec.Command(argv[0], argv[1:]...)
	cmd.Stdin = strings.NewReader(script + "(exit)\n")
	var buf bytes.Buffer
	cmd.Stdout = &buf
	cmd.Stderr = &buf
	err := cmd.Run()
	var ans []string
	for _, l := range strings.Split(buf.String(), "\n") {
		l = strings.TrimSpace(l)
		switch l {
		case "sat", "unsat", "unknown":
			ans = append(ans, l)
		default:
			if strings.HasPrefix(l, "(error") {
				return nil, fmt.Errorf("solver error: %s", l)
			}
		}
	}
	if err != nil && len(ans) == 0 {
		return nil, err
	}
	return ans, nil
}

func cmdSelftest(args []string) int {
	fmt.Println("selftest: not built yet")
	return 2
}

func schedOf(v *symx.Violation, on bool) []int {
	if !on {
		return nil
	}
	if v.Sched == nil {
		return []int{}
	}
	return v.Sched
}
