// gosx: bounded symbolic execution of go-stackage's SSA with an SMT solver.
//
//	gosx check <property> [--tier quick|thorough]   decide one property
//	gosx run <harness> <params...>                  explore one case, print
//	gosx replay <file>                              replay a counterexample natively
//	gosx externals                                  list external callees and their models
package main

import (
	"encoding/json"
	"flag"
	"fmt"
	"os"
	"path/filepath"
	"sort"
	"strconv"
	"strings"
	"time"

	"gosx/symx"
)

var (
	repoDir    = envOr("VERIF_REPO", "/repo")
	verifDir   = envOr("VERIF_DIR", "/verif")
	harnessDir = filepath.Join(verifDir, "harness")
)

func envOr(k, d string) string {
	if v := os.Getenv(k); v != "" {
		return v
	}
	return d
}

func main() {
	if len(os.Args) < 2 {
		usage()
	}
	code := 2
	switch os.Args[1] {
	case "check":
		code = cmdCheck(os.Args[2:])
	case "run":
		code = cmdRun(os.Args[2:])
	case "replay":
		code = cmdReplay(os.Args[2:])
	case "externals":
		code = cmdExternals()
	case "solverdiff":
		code = cmdSolverDiff(os.Args[2:])
	case "selftest":
		code = cmdSelftest(os.Args[2:])
	default:
		usage()
	}
	cleanup()
	os.Exit(code)
}

func usage() {
	fmt.Fprintln(os.Stderr, "usage: gosx check <property> [--tier quick|thorough] | run <harness> <params...> | replay <file> | externals | solverdiff <property> | selftest")
	os.Exit(2)
}

// harnessFiles maps overlay names to real files for the engine (rt_sym flavour).
func harnessFiles(native bool) map[string]string {
	m := map[string]string{}
	ents, err := os.ReadDir(harnessDir)
	if err != nil {
		fatal(err)
	}
	for _, e := range ents {
		n := e.Name()
		if !strings.HasSuffix(n, ".go") {
			continue
		}
		switch {
		case n == "rt_sym.go":
			if native {
				continue
			}
		case strings.HasPrefix(n, "rt_native"):
			if !native {
				continue
			}
		case strings.HasSuffix(n, "_test.go"):
			if !native {
				continue
			}
		}
		m["zz_verif_"+n] = filepath.Join(harnessDir, n)
	}
	if auto != nil {
		m["zz_verif_auto_gen.go"] = auto.Path
	}
	return m
}

func fatal(err error) {
	fmt.Fprintln(os.Stderr, "gosx:", err)
	cleanup()
	os.Exit(2)
}

var (
	runDir string
	auto   *autoInfo
)

// setupRun creates the scratch directory of this invocation and generates
// the auto-harness file from /repo's current method sets.
func setupRun() {
	runDir = filepath.Join(verifDir, ".work", fmt.Sprintf("%d", os.Getpid()))
	if err := os.MkdirAll(runDir, 0o755); err != nil {
		fatal(err)
	}
	a, err := generateAuto(runDir)
	if err != nil {
		fatal(err)
	}
	auto = a
}

func cleanup() {
	if runDir != "" {
		os.RemoveAll(runDir)
	}
}

func loadEngine() *symx.Engine {
	if runDir == "" {
		setupRun()
	}
	eng, err := symx.Load(repoDir, harnessFiles(false), false)
	if err != nil {
		fatal(err)
	}
	harnessNamesCache = allHarnessNames(eng)
	return eng
}

func cmdExternals() int {
	eng := loadEngine()
	names := map[string]bool{}
	for _, n := range symx.IntrinsicNames() {
		names[n] = true
	}
	for _, e := range eng.Externals() {
		st := "MISSING"
		if names[e] || names[strings.TrimPrefix(e, "invoke ")] {
			st = "modelled"
		}
		fmt.Printf("%-9s %s\n", st, e)
	}
	return 0
}

func cmdRun(args []string) int {
	fs := flag.NewFlagSet("run", flag.ExitOnError)
	trace := fs.Bool("trace", false, "trace instructions")
	maxPaths := fs.Int("max-paths", 0, "path budget")
	native := fs.Bool("native", true, "validate witnesses natively")
	sched := fs.Bool("sched", false, "native replay follows the recorded schedule (-tags verif)")
	fs.Parse(args)
	schedReplay = *sched
	rest := fs.Args()
	if len(rest) < 1 {
		usage()
	}
	spec := symx.CaseSpec{Harness: rest[0]}
	for _, a := range rest[1:] {
		n, err := strconv.Atoi(a)
		if err != nil {
			fatal(err)
		}
		spec.Params = append(spec.Params, n)
	}
	eng := loadEngine()
	eng.Trace = *trace
	res, st := eng.RunCase(spec, symx.Limits{MaxPaths: *maxPaths})
	fmt.Printf("case %s: paths=%d killed=%d transitions=%d obligations=%d steps=%d wall=%s queries=%d (sat %d unsat %d unknown %d) solver=%s\n",
		spec, res.Paths, res.Killed, res.Transitions, res.Obligations, res.Steps, res.Wall.Round(time.Millisecond),
		st.Queries, st.Sat, st.Unsat, st.Unknown, st.Time.Round(time.Millisecond))
	for _, k := range sortedKeysInt(res.Reached) {
		fmt.Printf("  reach %-20s %d\n", k, res.Reached[k])
	}
	for _, k := range sortedKeysInt(res.Asserts) {
		fmt.Printf("  assert %-30s discharged %d\n", k, res.Asserts[k])
	}
	for _, m := range res.Inconclusive {
		fmt.Printf("  INCONCLUSIVE %s\n", m)
	}
	for _, v := range res.Violations {
		fmt.Printf("  violation %s/%s/%s: %s\n      vector=%v\n", spec.Harness, v.Case, v.ID, v.Msg, v.Vector)
	}
	if *native {
		rep, err := nativeReplay([]*symx.CaseResult{res})
		if err != nil {
			fmt.Println("  native replay failed:", err)
			return 2
		}
		fmt.Printf("  native: %d witnesses validated, %d mismatches, %d violations confirmed, %d unconfirmed\n",
			rep.validated, len(rep.mismatches), len(rep.confirmed), len(rep.unconfirmed))
		for _, m := range rep.mismatches {
			fmt.Println("    MISMATCH", m)
		}
		for _, m := range rep.unconfirmed {
			fmt.Println("    UNCONFIRMED", m)
		}
	}
	return 0
}

func sortedKeysInt(m map[string]int) []string {
	var r []string
	for k := range m {
		r = append(r, k)
	}
	sort.Strings(r)
	return r
}

// ---------------------------------------------------------------------
// native replay

type replayCase struct {
	Harness   string         `json:"harness"`
	Params    []int          `json:"params"`
	Witnesses []symx.Witness `json:"witnesses"`
}

type replayResult struct {
	Case    int      `json:"case"`
	Witness int      `json:"witness"`
	Outcome string   `json:"outcome"`
	Obs     []string `json:"obs"`
	Detail  string   `json:"detail"`
	Label   string   `json:"label"`
}

type confirmedViolation struct {
	Spec   symx.CaseSpec
	V      *symx.Violation
	Native string // native outcome
	Detail string
	ByReplayOnly bool
}

type replayReport struct {
	validated    int
	mismatches   []string
	confirmed    []confirmedViolation
	unconfirmed  []string
	unconfirmedV []confirmedViolation
	wall        time.Duration
}

func workDir() string {
	if runDir == "" {
		setupRun()
	}
	return runDir
}

// writeOverlay prepares the go-build overlay that injects the harness (native
// flavour), the registry and the replay test into /repo without touching it.
func writeOverlay(dir string, harnesses []string) (string, error) {
	files := harnessFiles(true)
	var reg strings.Builder
	reg.WriteString("package stackage\n\nvar vhRegistry = map[string]func([]int){\n")
	sort.Strings(harnesses)
	for _, h := range harnesses {
		fmt.Fprintf(&reg, "\t%q: %s,\n", h, h)
	}
	reg.WriteString("}\n")
	regPath := filepath.Join(dir, "registry.go")
	if err := os.WriteFile(regPath, []byte(reg.String()), 0o644); err != nil {
		return "", err
	}
	repl := map[string]string{}
	for name, path := range files {
		repl[filepath.Join(repoDir, name)] = path
	}
	repl[filepath.Join(repoDir, "zz_verif_registry.go")] = regPath
	b, _ := json.Marshal(map[string]interface{}{"Replace": repl})
	ov := filepath.Join(dir, "overlay.json")
	return ov, os.WriteFile(ov, b, 0o644)
}

func allHarnessNames(eng *symx.Engine) []string {
	var r []string
	for name, m := range eng.Pkg.Members {
		if strings.HasPrefix(name, "VH_") {
			if _, ok := m.(interface{ Signature() }); ok || true {
				r = append(r, name)
			}
		}
	}
	sort.Strings(r)
	return r
}

var harnessNamesCache []string

// schedReplay: the property's harnesses start goroutines; native replays run
// with -tags verif and follow the recorded schedule.
var schedReplay bool

func runGoTest(dir string, in, out string, race bool) (string, error) {
	ov, err := writeOverlay(dir, harnessNamesCache)
	if err != nil {
		return "", err
	}
	env := []string{"VERIF_REPLAY_IN=" + in, "VERIF_REPLAY_OUT=" + out, fmt.Sprintf("VERIF_REPLAY_SKIP=%d", replaySkip)}
	args := []string{"test", "-vet=off", "-count=1", "-run", "^TestVerifReplay$", "-overlay", ov, "-timeout", "30m"}
	if race {
		env = append(env, "VERIF_RACE=1", "CGO_ENABLED=1")
		args = append(args, "-race")
	} else if schedReplay {
		// schedule replay through the library's lock-point hook (build tag verif)
		env = append(env, "VERIF_SCHED=1")
		args = append(args, "-tags", "verif")
	}
	args = append(args, ".")
	return runCmd(repoDir, env, "go", args...)
}

// runBatch replays a batch of witnesses natively (one go test process).
var lastRaceOutput string

func runBatch(dir, tag string, cases []replayCase, race bool) ([]replayResult, error) {
	in := filepath.Join(dir, tag+"_in.json")
	out := filepath.Join(dir, tag+"_out.json")
	b, _ := json.Marshal(cases)
	if err := os.WriteFile(in, b, 0o644); err != nil {
		return nil, err
	}
	total := 0
	type pos struct{ c, w int }
	var flat []pos
	for ci, c := range cases {
		for wi := range c.Witnesses {
			flat = append(flat, pos{ci, wi})
		}
		total += len(c.Witnesses)
	}
	var rs []replayResult
	// the test process writes one result line per witness as it goes; a
	// witness that kills the process (a Go "fatal error", e.g. unlocking an
	// unlocked mutex, cannot be recovered) is recorded as outcome "fatal" and
	// the run resumes behind it
	for crashes := 0; ; crashes++ {
		os.Remove(out)
		replaySkip = len(rs)
		outp, err := runGoTest(dir, in, out, race)
		if race {
			lastRaceOutput += outp
		}
		ob, rerr := os.ReadFile(out)
		if rerr != nil && len(rs) == 0 && err != nil {
			return nil, fmt.Errorf("native replay run failed: %v\n%s", err, outp)
		}
		n := 0
		for _, line := range strings.Split(string(ob), "\n") {
			if strings.TrimSpace(line) == "" {
				continue
			}
			var r replayResult
			if jerr := json.Unmarshal([]byte(line), &r); jerr != nil {
				break // a torn last line
			}
			rs = append(rs, r)
			n++
		}
		if len(rs) >= total {
			return rs, nil
		}
		if err == nil {
			return nil, fmt.Errorf("native replay run ended early without an error (%d of %d witnesses)\n%s", len(rs), total, outp)
		}
		if race && !strings.Contains(outp, "fatal error:") {
			// the race detector makes the run fail by design; an incomplete
			// result list without a fatal error is a broken run
			return nil, fmt.Errorf("native replay run failed: %v\n%s", err, outp)
		}
		if !strings.Contains(outp, "fatal error:") && !strings.Contains(outp, "panic:") {
			return nil, fmt.Errorf("native replay run failed: %v\n%s", err, outp)
		}
		if crashes > 40 {
			return nil, fmt.Errorf("native replay: more than 40 witnesses kill the test process\n%s", outp)
		}
		p := flat[len(rs)]
		detail := "the test process died"
		for _, l := range strings.Split(outp, "\n") {
			if strings.HasPrefix(l, "fatal error:") || strings.HasPrefix(l, "panic:") {
				detail = l
				break
			}
		}
		rs = append(rs, replayResult{Case: p.c, Witness: p.w, Outcome: "fatal", Detail: detail})
		if len(rs) >= total {
			return rs, nil
		}
	}
}

var replaySkip int

// isolatedReplay re-runs one witness alone in a fresh test process (at most
// 12 times per check).
func isolatedReplay(dir string, c replayCase, w symx.Witness, runs *int) *replayResult {
	if *runs >= 12 {
		return nil
	}
	*runs++
	rs, err := runBatch(dir, "isolated", []replayCase{{Harness: c.Harness, Params: c.Params, Witnesses: []symx.Witness{w}}}, false)
	if err != nil || len(rs) != 1 {
		return nil
	}
	return &rs[0]
}

func nativeReplay(results []*symx.CaseResult) (*replayReport, error) {
	isolatedRuns := 0
	start := time.Now()
	dir := workDir()
	type ref struct {
		res  *symx.CaseResult
		viol *symx.Violation // nil for a path witness
	}
	var cases, raceCases []replayCase
	var refs, raceRefs [][]ref
	for _, r := range results {
		if r == nil {
			continue
		}
		rc := replayCase{Harness: r.Spec.Harness, Params: r.Spec.Params}
		rrc := rc
		var rr, rrr []ref
		for i := range r.Witnesses {
			if r.Witnesses[i].Outcome != "ok" {
				continue // violating paths are replayed from the violation list
			}
			rc.Witnesses = append(rc.Witnesses, r.Witnesses[i])
			rr = append(rr, ref{res: r})
		}
		seenRace := map[string]bool{}
		for _, v := range r.Violations {
			switch v.Kind {
			case "write", "race":
				if v.Kind == "race" {
					// one native run per pair of racing sites and case is enough
					if seenRace[v.ID] {
						continue
					}
					seenRace[v.ID] = true
				}
				rrc.Witnesses = append(rrc.Witnesses, symx.Witness{Vector: v.Vector, Outcome: "race"})
				rrr = append(rrr, ref{res: r, viol: v})
				continue
			}
			oc := v.Kind + ":" + v.ID
			if v.Kind == "panic" {
				oc = "panic"
			}
			rc.Witnesses = append(rc.Witnesses, symx.Witness{Vector: v.Vector, Outcome: oc, Sched: v.Sched})
			rr = append(rr, ref{res: r, viol: v})
		}
		if len(rc.Witnesses) > 0 {
			cases = append(cases, rc)
			refs = append(refs, rr)
		}
		if len(rrc.Witnesses) > 0 {
			raceCases = append(raceCases, rrc)
			raceRefs = append(raceRefs, rrr)
		}
	}
	rep := &replayReport{}
	if len(raceCases) > 0 {
		rs, err := runBatch(dir, "race", raceCases, true)
		if err != nil {
			// the race-detector run could not be performed: every write/race
			// finding stays unconfirmed (listed known findings are tolerated)
			for ci, rc := range raceCases {
				for wi := range rc.Witnesses {
					rf := raceRefs[ci][wi]
					msg := fmt.Sprintf("%s %s/%s: race-detector run failed: %v", rf.res.Spec, rf.viol.Case, rf.viol.ID, firstLine(err.Error()))
					rep.unconfirmed = append(rep.unconfirmed, msg)
					rep.unconfirmedV = append(rep.unconfirmedV, confirmedViolation{Spec: rf.res.Spec, V: rf.viol, Native: "race-run-failed", Detail: msg})
				}
			}
			rs = nil
		}
		// the race detector reports each distinct pair of stacks once per
		// process: a site confirmed for one witness counts for the others
		siteConfirmed := map[string]bool{}
		for _, pair := range raceSitePairs(lastRaceOutput) {
			siteConfirmed[pair] = true
		}
		for _, r := range rs {
			if r.Outcome == "race" || r.Outcome == "panic" || strings.HasPrefix(r.Outcome, "assert:") {
				rf := raceRefs[r.Case][r.Witness]
				siteConfirmed[rf.viol.ID] = true
				siteConfirmed[rf.res.Spec.Harness+"/"+rf.viol.Case] = true
			}
		}
		for _, r := range rs {
			rf := raceRefs[r.Case][r.Witness]
			w := raceCases[r.Case].Witnesses[r.Witness]
			if r.Outcome == "race" || r.Outcome == "panic" || strings.HasPrefix(r.Outcome, "assert:") ||
				(r.Outcome == "ok" && (siteConfirmed[rf.viol.ID] || siteConfirmed[rf.res.Spec.Harness+"/"+rf.viol.Case] || siteConfirmed[normRaceID(rf.viol.ID)])) {
				rep.confirmed = append(rep.confirmed, confirmedViolation{Spec: rf.res.Spec, V: rf.viol, Native: "race detector report", Detail: r.Detail})
			} else {
				msg := fmt.Sprintf("%s %s/%s: engine reports a write/race, the race detector run says %s (vector %v)", rf.res.Spec, rf.viol.Case, rf.viol.ID, r.Outcome, w.Vector)
				rep.unconfirmed = append(rep.unconfirmed, msg)
				rep.unconfirmedV = append(rep.unconfirmedV, confirmedViolation{Spec: rf.res.Spec, V: rf.viol, Native: r.Outcome, Detail: msg})
			}
		}
	}
	if len(cases) == 0 {
		rep.wall = time.Since(start)
		return rep, nil
	}
	rs, err := runBatch(dir, "replay", cases, false)
	if err != nil {
		return nil, err
	}
	for _, r := range rs {
		rf := refs[r.Case][r.Witness]
		w := cases[r.Case].Witnesses[r.Witness]
		spec := rf.res.Spec
		if rf.viol != nil {
			ok := r.Outcome == w.Outcome || (strings.HasSuffix(rf.viol.ID, ":deadlock") && r.Outcome == "timeout")
			if ok {
				rep.confirmed = append(rep.confirmed, confirmedViolation{Spec: spec, V: rf.viol, Native: r.Outcome, Detail: r.Detail})
			} else if r.Outcome == "panic" || r.Outcome == "fatal" || strings.HasPrefix(r.Outcome, "assert:") {
				// natively reproduced, but as a different failure: report what the real code does
				v := *rf.viol
				if r.Outcome == "fatal" {
					v.Kind, v.ID, v.Msg = "panic", "fatal:native:"+firstLine(r.Detail), "the Go runtime killed the process: "+r.Detail
				} else if r.Outcome == "panic" {
					v.Kind, v.ID, v.Msg = "panic", "panic:native:"+firstLine(r.Detail), "native panic: "+r.Detail
				} else {
					v.Kind, v.ID = "assert", strings.TrimPrefix(r.Outcome, "assert:")
				}
				rep.confirmed = append(rep.confirmed, confirmedViolation{Spec: spec, V: &v, Native: r.Outcome, Detail: r.Detail})
			} else if iso := isolatedReplay(dir, cases[r.Case], w, &isolatedRuns); iso != nil && (iso.Outcome == w.Outcome || iso.Outcome == "panic" || iso.Outcome == "fatal" || strings.HasPrefix(iso.Outcome, "assert:")) {
				// the batch runs every witness in one process; package-level
				// state left behind by earlier witnesses can mask a failure
				// that a fresh process (which is what the engine models) shows
				v := *rf.viol
				if iso.Outcome != w.Outcome {
					if iso.Outcome == "panic" || iso.Outcome == "fatal" {
						v.Kind, v.ID, v.Msg = "panic", "panic:native:"+firstLine(iso.Detail), "native panic: "+iso.Detail
					} else {
						v.Kind, v.ID = "assert", strings.TrimPrefix(iso.Outcome, "assert:")
					}
				}
				rep.confirmed = append(rep.confirmed, confirmedViolation{Spec: spec, V: &v, Native: iso.Outcome + " (fresh process)", Detail: iso.Detail})
			} else {
				msg := fmt.Sprintf("%s %s/%s: engine says %s, native run says %s (vector %v) %s", spec, rf.viol.Case, rf.viol.ID, w.Outcome, r.Outcome, w.Vector, r.Detail)
				rep.unconfirmed = append(rep.unconfirmed, msg)
				rep.unconfirmedV = append(rep.unconfirmedV, confirmedViolation{Spec: spec, V: rf.viol, Native: r.Outcome, Detail: msg})
			}
			continue
		}
		// path witness
		switch {
		case r.Outcome == "ok":
			if !sameObs(w.Obs, r.Obs) {
				rep.mismatches = append(rep.mismatches, fmt.Sprintf("%s: observations differ: engine %v native %v (vector %v)", spec, w.Obs, r.Obs, w.Vector))
			} else {
				rep.validated++
			}
		case r.Outcome == "panic" || strings.HasPrefix(r.Outcome, "assert:"):
			// the engine saw a passing path but the real code fails: a
			// natively reproduced violation found by witness replay.
			v := &symx.Violation{Kind: "assert", ID: strings.TrimPrefix(r.Outcome, "assert:"), Vector: w.Vector, Case: r.Label, Msg: "found by native witness replay (engine path passed)"}
			if r.Outcome == "panic" {
				v.Kind, v.ID, v.Msg = "panic", "panic:native:"+firstLine(r.Detail), "native panic on a path the engine passed: "+r.Detail
			}
			rep.confirmed = append(rep.confirmed, confirmedViolation{Spec: spec, V: v, Native: r.Outcome, Detail: r.Detail, ByReplayOnly: true})
		default:
			rep.mismatches = append(rep.mismatches, fmt.Sprintf("%s: engine path passes but native run gives %s (vector %v)", spec, r.Outcome, w.Vector))
		}
	}
	rep.wall = time.Since(start)
	return rep, nil
}

func firstLine(s string) string {
	if i := strings.IndexByte(s, '\n'); i >= 0 {
		s = s[:i]
	}
	if len(s) > 80 {
		s = s[:80]
	}
	return s
}

func sameObs(a, b []string) bool {
	if len(a) != len(b) {
		return false
	}
	for i := range a {
		if a[i] != b[i] {
			return false
		}
	}
	return true
}

// ---------------------------------------------------------------------
// replay of one stored counterexample

type replayFile struct {
	Sched    []int    `json:"sched,omitempty"`
	Property string   `json:"property"`
	Key      string   `json:"key"`
	Harness  string   `json:"harness"`
	Params   []int    `json:"params"`
	Vector   []string `json:"vector"`
	Kinds    []string `json:"kinds"`
	Expect   string   `json:"expect"`
	Msg      string   `json:"msg"`
}

func cmdReplay(args []string) int {
	if len(args) < 1 {
		usage()
	}
	b, err := os.ReadFile(args[0])
	if err != nil {
		fatal(err)
	}
	var rf replayFile
	if err := json.Unmarshal(b, &rf); err != nil {
		fatal(err)
	}
	eng := loadEngine()
	harnessNamesCache = allHarnessNames(eng)
	dir := workDir()
	defer cleanup()
	in := filepath.Join(dir, "in.json")
	out := filepath.Join(dir, "out.json")
	schedReplay = rf.Sched != nil
	cases := []replayCase{{Harness: rf.Harness, Params: rf.Params, Witnesses: []symx.Witness{{Vector: rf.Vector, Outcome: rf.Expect, Sched: rf.Sched}}}}
	_, _ = in, out
	rs, err := runBatch(dir, "single", cases, rf.Expect == "race")
	if err != nil {
		fatal(err)
	}
	if len(rs) != 1 {
		fatal(fmt.Errorf("no replay result"))
	}
	fmt.Printf("replay %s %v vector=%v\n  expected: %s\n  native:   %s %s\n  observations: %v\n", rf.Harness, rf.Params, rf.Vector, rf.Expect, rs[0].Outcome, rs[0].Detail, rs[0].Obs)
	if rs[0].Outcome == "ok" || rs[0].Outcome == "assume" {
		fmt.Println("NOT REPRODUCED")
		return 0
	}
	fmt.Printf("VIOLATION property=%s replay=%s\n", rf.Property, args[0])
	return 1
}

// normSite reduces a function name (ssa or runtime spelling) to Type.method.
func normSite(f string) string {
	f = strings.TrimSuffix(f, "()")
	f = strings.ReplaceAll(f, "github.com/JesseCoretta/go-stackage.", "")
	f = strings.NewReplacer("(", "", ")", "", "*", "").Replace(f)
	if i := strings.Index(f, ".func"); i >= 0 {
		f = f[:i]
	}
	return f
}

// normRaceID turns "race:w:<site>|r:<site>" into "racepair:<a>|<b>" (sorted,
// access kinds dropped).
func normRaceID(id string) string {
	id = strings.TrimPrefix(id, "race:")
	parts := strings.Split(id, "|")
	var sites []string
	for _, p := range parts {
		if len(p) > 2 && p[1] == ':' {
			p = p[2:]
		}
		sites = append(sites, normSite(p))
	}
	sort.Strings(sites)
	return "racepair:" + strings.Join(sites, "|")
}

// raceSitePairs extracts, from `go test -race` output, the pairs of innermost
// library functions of every reported data race.
func raceSitePairs(out string) []string {
	var pairs []string
	blocks := strings.Split(out, "WARNING: DATA RACE")
	for _, b := range blocks[1:] {
		var tops []string
		lines := strings.Split(b, "\n")
		expect := false
		for _, l := range lines {
			t := strings.TrimSpace(l)
			if strings.HasPrefix(t, "Write at") || strings.HasPrefix(t, "Read at") || strings.HasPrefix(t, "Previous write at") || strings.HasPrefix(t, "Previous read at") {
				expect = true
				continue
			}
			if strings.HasPrefix(t, "Goroutine") || strings.HasPrefix(t, "====") {
				expect = false
			}
			if expect && strings.Contains(t, "go-stackage.") && !strings.Contains(t, ".VH_") && !strings.Contains(t, ".vh") {
				tops = append(tops, normSite(t))
				expect = false
			}
		}
		if len(tops) >= 2 {
			p := []string{tops[0], tops[1]}
			sort.Strings(p)
			pairs = append(pairs, "racepair:"+p[0]+"|"+p[1])
		}
	}
	return pairs
}
