package main

import (
	"fmt"

	"gosx/symx"
)

// A property is decided by a set of cases (harness + concrete shape
// parameters) per tier.
type property struct {
	id          string
	gen         func(tier string, seed int) []symx.CaseSpec
	boundsText  map[string]string
	outside     string
	assumptions []string
	paths       map[string]int
}

func (p *property) cases(tier string, seed int) []symx.CaseSpec { return p.gen(tier, seed) }
func (p *property) bounds(tier string) string                   { return p.boundsText[tier] }
func (p *property) maxPaths(tier string) int {
	if n, ok := p.paths[tier]; ok {
		return n
	}
	if tier == "thorough" {
		return 2_000_000
	}
	return 300_000
}

var properties = map[string]*property{}

func register(p *property) { properties[p.id] = p }

func cs(h string, params ...int) symx.CaseSpec { return symx.CaseSpec{Harness: h, Params: params} }

func q(tier string, quick, thorough int) int {
	if tier == "thorough" {
		return thorough
	}
	return quick
}

func init() {
	register(&property{
		id: "C08",
		gen: func(tier string, seed int) []symx.CaseSpec {
			var out []symx.CaseSpec
			maxN := q(tier, 4, 6)
			maxSlack := q(tier, 1, 2)
			for n := 0; n <= maxN; n++ {
				for slack := 0; slack <= maxSlack; slack++ {
					if slack > 0 && n > q(tier, 2, 4) {
						continue
					}
					for _, h := range []string{"VH_C08_Index", "VH_C08_Replace", "VH_C08_Swap", "VH_C08_Remove", "VH_C08_Insert", "VH_C08_LessDefrag"} {
						out = append(out, cs(h, n, slack))
					}
					for l := 0; l <= 3; l++ {
						out = append(out, cs("VH_C08_Traverse", n, slack, l))
					}
				}
			}
			for k := 0; k < 5; k++ {
				out = append(out, cs("VH_C08_Ctor", k))
			}
			return out
		},
		boundsText: map[string]string{
			"quick":    "stack length n<=4 (spare capacity<=1 for n<=2), Traverse path length<=3, constructor capacity argument<=64; every int argument, option bits, kind, FIFO flag, capacity field: all values",
			"thorough": "stack length n<=6 (spare capacity<=2 for n<=4), Traverse path length<=3, constructor capacity argument<=64; every int argument, option bits, kind, FIFO flag, capacity field: all values",
		},
		outside: "stacks longer than the bound; constructor capacities above 64 (allocation size only); element values outside the harness catalogue",
		assumptions: []string{
			"pre-states are arbitrary stacks satisfying the representation invariant Inv (slot 0 = configuration, kind in {AND,OR,NOT,LIST,BASIC}, capacity field 0 or >= len, only the eight settable option bits)",
		},
	})
}

var _ = fmt.Sprint
