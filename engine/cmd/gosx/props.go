package main

import (
	"fmt"

	"gosx/symx"
)

// A property is decided by a set of cases (harness + concrete shape
// parameters) per tier.
type property struct {
	id          string
	gen         func(tier string, seed int) []symx.CaseSpec
	boundsText  map[string]string
	outside     string
	assumptions []string
	paths       map[string]int
	sched       bool // harnesses start goroutines: native replay follows the recorded schedule
}

func (p *property) cases(tier string, seed int) []symx.CaseSpec { return p.gen(tier, seed) }
func (p *property) bounds(tier string) string                   { return p.boundsText[tier] }
func (p *property) maxPaths(tier string) int {
	if n, ok := p.paths[tier]; ok {
		return n
	}
	if tier == "thorough" {
		return 2_000_000
	}
	return 300_000
}

var properties = map[string]*property{}

func register(p *property) { properties[p.id] = p }

func cs(h string, params ...int) symx.CaseSpec { return symx.CaseSpec{Harness: h, Params: params} }

func q(tier string, quick, thorough int) int {
	if tier == "thorough" {
		return thorough
	}
	return quick
}

func init() {
	register(&property{
		id: "C08",
		gen: func(tier string, seed int) []symx.CaseSpec {
			var out []symx.CaseSpec
			maxN := q(tier, 4, 6)
			maxSlack := q(tier, 1, 2)
			for n := 0; n <= maxN; n++ {
				for slack := 0; slack <= maxSlack; slack++ {
					if slack > 0 && n > q(tier, 2, 4) {
						continue
					}
					for _, h := range []string{"VH_C08_Index", "VH_C08_Replace", "VH_C08_Swap", "VH_C08_Remove", "VH_C08_Insert", "VH_C08_LessDefrag"} {
						out = append(out, cs(h, n, slack))
					}
					for l := 0; l <= 3; l++ {
						out = append(out, cs("VH_C08_Traverse", n, slack, l))
					}
					if n >= 1 && slack == 0 {
						out = append(out, cs("VH_C08_Traverse", n, slack, 2, 1)) // a nested Stack at position 0
					}
				}
			}
			for k := 0; k < 5; k++ {
				out = append(out, cs("VH_C08_Ctor", k))
			}
			out = append(out, cs("VH_C08_WalkersAwkward"))
			for i := range auto.Stack {
				out = append(out, cs("VH_C08_StackValues", i, 0, 0, q(tier, 1, 2)), cs("VH_C08_StackValues", i, 0, 1, 1))
				if tier == "thorough" {
					out = append(out, cs("VH_C08_StackValues", i, 3, 0, 1))
				}
			}
			for i := range auto.Cond {
				out = append(out, cs("VH_C08_CondValues", i, 0, q(tier, 1, 2)), cs("VH_C08_CondValues", i, 2, 1))
			}
			out = append(out, cs("VH_C08_EqualAwkward", 0), cs("VH_C08_EqualAwkward", 1))
			return out
		},
		boundsText: map[string]string{
			"quick":    "values: every exported Stack/Condition method x a catalogue of 35 values for each `any` argument (variadics of length 0..1 quick / 0..2 thorough), option bits clear, kinds AND and LIST on initialised receivers with nested content; indices: stack length n<=4 (spare capacity<=1 for n<=2), Traverse path length<=3, constructor capacity argument<=64; every int argument, option bits, kind, FIFO flag, capacity field: all values",
			"thorough": "stack length n<=6 (spare capacity<=2 for n<=4), Traverse path length<=3, constructor capacity argument<=64; every int argument, option bits, kind, FIFO flag, capacity field: all values",
		},
		outside: "stacks longer than the bound; constructor capacities above 64 (allocation size only); element values outside the harness catalogue",
		assumptions: []string{
			"pre-states are arbitrary stacks satisfying the representation invariant Inv (slot 0 = configuration, kind in {AND,OR,NOT,LIST,BASIC}, capacity field 0 or >= len, only the eight settable option bits)",
		},
	})

	register(&property{
		id: "C01",
		gen: func(tier string, seed int) []symx.CaseSpec {
			var out []symx.CaseSpec
			maxN, maxSlack, maxM := q(tier, 3, 5), q(tier, 1, 2), q(tier, 2, 3)
			for n := 0; n <= maxN; n++ {
				for slack := 0; slack <= maxSlack; slack++ {
					for op := 0; op < 10; op++ {
						if op == 0 {
							for m := 0; m <= maxM; m++ {
								out = append(out, cs("VH_C01_Step", n, slack, m, op))
							}
						} else {
							out = append(out, cs("VH_C01_Step", n, slack, 0, op))
							if slack == 0 && n >= 2 && op < 8 {
								// duplicate and uncomparable element values
								out = append(out, cs("VH_C01_Step", n, slack, 0, op, 1))
							}
						}
					}
				}
			}
			out = append(out, cs("VH_C01_Hist", 1, 2, 2))
			out = append(out, cs("VH_C01_Hist", 2, 1, 2))
			if tier == "thorough" {
				out = append(out, cs("VH_C01_Hist", 2, 2, 3))
				out = append(out, cs("VH_C01_Hist", 3, 1, 2), cs("VH_C01_Hist", 4, 1, 1))
			}
			for n := 0; n <= q(tier, 3, 5); n++ {
				out = append(out, cs("VH_C01_ReadOnlyViews", n, 0), cs("VH_C01_ReadOnlyViews", n, 1))
			}
			return out
		},
		boundsText: map[string]string{
			"quick":    "one-step induction from an arbitrary Inv pre-state: length n<=3, spare capacity<=1, push batch<=2 (nil values by fork), all 8 mutators, all index arguments; histories of 2 operations from every constructor (capacity 0..2, LIFO/FIFO); every observer on read-only pre-states of length 0..3; a mutex present or not in every pre-state",
			"thorough": "one-step induction from an arbitrary Inv pre-state: length n<=5, spare capacity<=2, push batch<=3; histories of up to 4 operations from every constructor (capacity 0..3, LIFO/FIFO); read-only observers up to length 5",
		},
		outside: "stacks longer than the bound (covered only through the inductive argument with Inv as hypothesis); elements that are Stacks/Conditions (irrelevant to ordering)",
		assumptions: []string{
			"inductive hypothesis Inv (DESIGN §3.11): the pre-state is any stack with slot 0 = configuration, capacity field 0 or >= len, option bits within the eight settable ones; base case = the constructors (history harness)",
			"indices of Remove/Replace/Swap address existing positions (as the statement says); Insert takes any int",
			"leniency: Remove(i) of a nil element may either remove it or report failure; the success flag of Pop on a nil element is not constrained; Front/Back are constrained only when that end's element is non-nil or all elements are nil",
		},
	})

	register(&property{
		id: "C03",
		gen: func(tier string, seed int) []symx.CaseSpec {
			var out []symx.CaseSpec
			maxN := q(tier, 4, 7)
			for n := 0; n <= maxN; n++ {
				for slack := 0; slack <= 1; slack++ {
					for op := 0; op <= 6; op++ {
						switch op {
						case 0, 2:
							for m := 0; m <= 3; m++ {
								out = append(out, cs("VH_C03_Step", n, slack, m, op))
								if slack == 0 {
									out = append(out, cs("VH_C03_Step", n, slack, m, op, 1)) // with a push policy
								}
								if op == 0 && slack == 0 && m >= 2 {
									// nested Stacks at some positions of the batch
									for _, nest := range []int{1, 2, 5} {
										if nest < 1<<uint(m) {
											out = append(out, cs("VH_C03_Step", n, slack, m, op, 0, nest))
											if nest == 1 {
												out = append(out, cs("VH_C03_Step", n, slack, m, op, 1, nest))
											}
										}
									}
								}
							}
						default:
							out = append(out, cs("VH_C03_Step", n, slack, 0, op))
						}
					}
				}
			}
			out = append(out, cs("VH_C03_Hist", 2, 2, 2))
			if tier == "thorough" {
				out = append(out, cs("VH_C03_Hist", 3, 2, 3), cs("VH_C03_Hist", 4, 1, 2))
			}
			for k := 0; k < 5; k++ {
				out = append(out, cs("VH_C08_Ctor", k))
			}
			return out
		},
		boundsText: map[string]string{
			"quick":    "length n<=4, capacity field any value in [n+1,n+4] or none, all eight option bits (read-only and no-nesting included) and a mutex present or not, push/transfer batches<=3 with nested Stacks at positions {first, second, first+third}, with and without a push policy, one step of Push/Insert/Transfer/Marshal/Pop/Remove/Reset; histories of 2 steps from constructors with capacity 0..2; constructor capacity argument any int <=64",
			"thorough": "as quick with length n<=7; histories of 3-4 steps from constructors with capacity 0..3",
		},
		outside: "capacities further than 3 above the current length (behave as far from the boundary); stacks longer than the bound",
		assumptions: []string{"pre-state satisfies Inv; capacity field c means user capacity c-1"},
	})

	register(&property{
		id: "C18",
		gen: func(tier string, seed int) []symx.CaseSpec {
			var out []symx.CaseSpec
			out = append(out, cs("VH_C18_Bits", 1, 1, 2), cs("VH_C18_Bits", 2, 0, 1), cs("VH_C18_CondBits", 1, 1), cs("VH_C18_CondBits", 2, 1))
			if tier == "thorough" {
				out = append(out, cs("VH_C18_Bits", 2, 1, 2), cs("VH_C18_Bits", 3, 0, 0), cs("VH_C18_CondBits", 3, 1))
			}
			for target := 0; target <= 1; target++ {
				for unset := 0; unset <= 1; unset++ {
					for nargs := 1; nargs <= q(tier, 2, 3); nargs++ {
						out = append(out, cs("VH_C18_Log", nargs, target, unset))
					}
				}
				out = append(out, cs("VH_C18_Encap", target))
			}
			for w := 0; w <= 3; w++ {
				out = append(out, cs("VH_C18_LogText", w))
				for l := 0; l <= q(tier, 2, 3); l++ {
					out = append(out, cs("VH_C18_Text", w, l))
				}
				if w == 2 {
					out = append(out, cs("VH_C18_Text", w, 1, 1)) // then set by rune, unset by "", NUL or nil
				}
				if w == 3 {
					out = append(out, cs("VH_C18_Text", w, 1, 1)) // the symbol given in pieces
				}
			}
			out = append(out, cs("VH_C18_FifoAux"))
			// the read-only switch is invisible to every observer
			for i, n := range auto.Stack {
				if !auto.Mut["Stack."+n] {
					out = append(out, cs("VH_C18_ReadOnlyTransparent", i, 0, 0))
					if tier == "thorough" {
						out = append(out, cs("VH_C18_ReadOnlyTransparent", i, 3, 0), cs("VH_C18_ReadOnlyTransparent", i, 16, 0))
					}
				}
			}
			for i, n := range auto.Cond {
				if !auto.Mut["Condition."+n] {
					out = append(out, cs("VH_C18_ReadOnlyTransparent", i, 0, 1), cs("VH_C18_ReadOnlyTransparent", i, 2, 1))
				}
			}
			return out
		},
		boundsText: map[string]string{
			"quick":    "option word: all 2^8 settable-bit states (solver variable) x sequences of 1-2 {set,clear,toggle} calls over 8 stack / 4 condition setters incl. deprecated spellings; log-level mask all 2^16 values x 1-2 arguments (LogLevel(v), int v, names; v any 16-bit value); ID/category/delimiter/symbol: every ASCII string of 0-2 bytes; encapsulation characters: every byte",
			"thorough": "as quick with sequences of 3 calls, 3 log-level arguments, strings of 0-3 bytes",
		},
		outside: "texts longer than the bound and non-ASCII texts reaching case mapping (SetID lower-cases its argument); ints outside [0,65535] and unknown names as log levels (statement silent); the _random/_addr ID keywords (environment dependent)",
		assumptions: []string{"UnsetLogLevel(all) is expected to clear the mask, as the doc comment of logLevels.unshift states"},
	})

	register(&property{
		id: "C13",
		gen: func(tier string, seed int) []symx.CaseSpec {
			var out []symx.CaseSpec
			for n := 0; n <= q(tier, 2, 4); n++ {
				for m := 0; m <= q(tier, 2, 3); m++ {
					if n+m > 6 {
						continue
					}
					for toggle := 0; toggle <= 1; toggle++ {
						out = append(out, cs("VH_C13_Push", n, m, toggle, 0))
						if n > 0 {
							out = append(out, cs("VH_C13_Push", n, m, toggle, 1))
						}
					}
				}
			}
			for form := 0; form <= 4; form++ {
				out = append(out, cs("VH_C13_Cond", form, 0), cs("VH_C13_Cond", form, 1))
			}
			out = append(out, cs("VH_C13_Unusable"))
			return out
		},
		boundsText: map[string]string{
			"quick":    "existing length<=2, push batch<=2 with every mix of {primitive, nil, Stack, alias, alias with String, pointer to alias, Condition, int}; no-nesting bit and the other option bits: all values; capacity none or any value in [n+1, n+m+2]; optional SetNoNesting(b) with b symbolic; Condition side: all five wrappings of the offered stack x text/stack initial expression",
			"thorough": "as quick with existing length<=4 and batches<=3 (batches of 4 over 8 value forms x capacity x three pre-state modes took 48 min and were dropped)",
		},
		outside: "batches longer than the bound; push policies (C14); nil pointers to aliases (C08)",
	})

	register(&property{
		id: "C15",
		gen: func(tier string, seed int) []symx.CaseSpec {
			var out []symx.CaseSpec
			for ns := 0; ns <= q(tier, 3, 6); ns++ {
				for nd := 0; nd <= q(tier, 3, 5); nd++ {
					for v := 0; v <= 16; v++ {
						if v >= 3 && v < 15 && nd > 1 {
							continue
						}
						out = append(out, cs("VH_C15", ns, nd, v))
					}
				}
			}
			return out
		},
		boundsText: map[string]string{
			"quick":    "source length 0..3 (nil elements by fork, kind/FIFO/options/capacity symbolic), destination length 0..3 with spare backing capacity, destination capacity field none or any value in [nd+1, nd+ns+2]; destination given as Stack, alias, pointer to alias, read-only, zero Stack, foreign value, nil, the source itself (handle, alias, pointer), typed nil pointers and nil pointer chains (**Stack, **alias, ***Stack with a nil middle link), a destination whose push policy refuses an arbitrary subset of the offered values, a no-nesting destination with a Stack in the source",
			"thorough": "as quick with source lengths 0..6 and destination lengths 0..5",
		},
		outside: "src == dst (self-transfer; not in the quantifier); longer stacks",
	})

	register(&property{
		id: "C17",
		gen: func(tier string, seed int) []symx.CaseSpec {
			var out []symx.CaseSpec
			for i := range auto.Stack {
				out = append(out, cs("VH_C17_Stack", i, 0), cs("VH_C17_Stack", i, 1), cs("VH_C17_Stack", i, 2))
			}
			for i := range auto.Cond {
				out = append(out, cs("VH_C17_Cond", i, 0), cs("VH_C17_Cond", i, 1), cs("VH_C17_Cond", i, 2), cs("VH_C17_Cond", i, 3), cs("VH_C17_Cond", i, 4))
			}
			for i := range auto.Aux {
				out = append(out, cs("VH_C17_Aux", i))
			}
			for i := range auto.Funcs {
				out = append(out, cs("VH_C17_Func", i))
			}
			for n := 0; n <= q(tier, 3, 5); n++ {
				out = append(out, cs("VH_C17_ResetFree", n))
			}
			return out
		},
		boundsText: map[string]string{
			"quick":    "every exported method of Stack, Condition, Auxiliary and every exported package-level function of the tree under test (enumerated from go/types at run time) x receiver states {zero value, freed, Init()-only Condition, nil Auxiliary} x argument variants (ints/bools: all values; strings: 4; any: catalogue of 35 awkward values; variadics of length 0..2; closures nil/inert); Reset/Free on arbitrary stacks of length<=3 with nil elements",
			"thorough": "as quick with Reset/Free on lengths<=5",
		},
		outside: "argument values outside the catalogue; string results are not constrained (documented sentinels such as <invalid_stack>, unspecified, uninitialized)",
	})

	isMut := func(full string) bool { return auto.Mut[full] }
	register(&property{
		id: "C09",
		gen: func(tier string, seed int) []symx.CaseSpec {
			var out []symx.CaseSpec
			variants := []int{0, 3, 16}
			if tier == "thorough" {
				variants = []int{0, 1, 2, 3, 4, 7, 16, 18}
			}
			for i := range auto.Stack {
				for _, v := range variants {
					out = append(out, cs("VH_C09_Stack", i, v))
				}
			}
			for i := range auto.Cond {
				for _, v := range []int{0, 1, 2, 3} {
					out = append(out, cs("VH_C09_Cond", i, v))
				}
			}
			for i := range auto.Stack {
				out = append(out, cs("VH_C09_AsArgument", i, 0))
			}
			// the read-only instance nested below a writable parent whose methods are called
			for i, n := range auto.Stack {
				if isMut("Stack."+n) || tier == "thorough" {
					for nest := 0; nest <= 4; nest++ {
						out = append(out, cs("VH_C09_NestedUnderParent", i, 0, nest))
					}
					if tier == "thorough" {
						out = append(out, cs("VH_C09_NestedUnderParent", i, 2, 1))
					}
				}
			}
			// pairs: every mutator followed by every mutator (thorough), a seeded sample (quick)
			var muts []int
			for i, n := range auto.Stack {
				if isMut("Stack." + n) {
					muts = append(muts, i)
				}
			}
			k := 0
			for _, a := range muts {
				for _, b := range muts {
					k++
					if tier == "thorough" || (k+seed)%23 == 0 {
						out = append(out, cs("VH_C09_StackPair", a, b, 0))
					}
				}
			}
			return out
		},
		boundsText: map[string]string{
			"quick":    "every exported method of Stack and Condition of the tree under test x argument variants (ints/bools all values, strings 4, any: 12 catalogue values, variadics 0..2) on a read-only receiver with nested content (Stack/alias, Condition holding a Stack, text, int), all other option bits symbolic, closures installed / not, mutex on / off; the read-only Stack (native / alias / pointer forms) handed as argument to every method of another Stack; a seeded 1/23 sample of ordered mutator pairs",
			"thorough": "as quick with capacity variants and all ordered pairs of declared mutators",
		},
		outside: "receivers with other content shapes; sequences longer than two calls",
		assumptions: []string{"documented exceptions: SetReadOnly/ReadOnly (only the read-only bit), SetErr (only the error), Condition.Init (replaces the handle's instance; the old instance is compared)"},
	})

	register(&property{
		id: "C11",
		gen: func(tier string, seed int) []symx.CaseSpec {
			var out []symx.CaseSpec
			variants := []int{0, 3, 8, 16}
			if tier == "thorough" {
				variants = []int{0, 1, 2, 3, 4, 7, 8, 10, 16, 18}
			}
			for i, n := range auto.Stack {
				if isMut("Stack." + n) {
					continue
				}
				for _, v := range variants {
					out = append(out, cs("VH_C11_Stack", i, v))
				}
			}
			for i, n := range auto.Cond {
				if isMut("Condition." + n) {
					continue
				}
				for _, v := range []int{0, 1, 2, 3} {
					out = append(out, cs("VH_C11_Cond", i, v))
				}
			}
			for i, n := range auto.Aux {
				if !isMut("Auxiliary." + n) {
					out = append(out, cs("VH_C11_Aux", i))
				}
			}
			out = append(out, cs("VH_C11_TraversePath", 0), cs("VH_C11_TraversePath", 3))
			return out
		},
		boundsText: map[string]string{
			"quick":    "every exported method of Stack, Condition and Auxiliary that is not in the declared mutator list (/verif/harness/mutators.txt) x argument variants, on a receiver with nested content, option bits (incl. read-only) symbolic, closures installed / not, mutex on / off",
			"thorough": "as quick with capacity variants",
		},
		outside: "free-running parallel executions: concurrency safety is inferred from the absence of any store into pre-existing memory during the query (engine write log over all explored paths); a store found by the engine is confirmed by running the query from two goroutines under the Go race detector",
		assumptions: []string{"Go memory model: calls that perform no write to shared memory cannot race with each other", "Stack.Addr / Condition.Addr results are not compared between repetitions in the engine (pointer text)"},
	})

	register(&property{
		id: "C06",
		gen: func(tier string, seed int) []symx.CaseSpec {
			var out []symx.CaseSpec
			for call := 0; call <= 2; call++ {
				for enc := 0; enc <= 2; enc++ {
					out = append(out, cs("VH_C06_Step", call, enc))
				}
			}
			out = append(out, cs("VH_C06_Hist", 1, 0), cs("VH_C06_Hist", 1, 1), cs("VH_C06_Hist", 2, 1))
			if tier == "thorough" {
				out = append(out, cs("VH_C06_Hist", 2, 0), cs("VH_C06_Hist", 3, 1))
			}
			return out
		},
		boundsText: map[string]string{
			"quick":    "one setter call from an arbitrary condition state: keyword {empty, text}, operator {nil, built-in with any 8-bit code, user-defined}, expression {nil, text, int, Stack, Condition, stringer}, option bits (paren, no-padding, no-nesting) all values, Err nil/non-nil, encapsulation none/single/pair+single; arguments incl. nil operator, empty-text/empty-context operators, empty string, nil, Stack, bool; histories of 1 setter call from Cond(...) and 1-2 from Init()",
			"thorough": "as quick with histories of 2 calls from Cond(...) and 3 from Init()",
		},
		outside: "keywords/expressions with symbolic text (rendering of text is C02's subject); aliases as expression (C12); validity/presentation policies (C14)",
	})

	register(&property{
		id: "C07",
		gen: func(tier string, seed int) []symx.CaseSpec {
			var out []symx.CaseSpec
			add := func(depth, maxw int, digits []int) {
				for l := 0; l <= depth+2; l++ {
					out = append(out, cs("VH_C07", append([]int{depth, maxw, l}, digits...)...))
				}
			}
			// hand-picked shapes: leaf then nested stack (the sibling case), chains, conditions
			add(2, 2, []int{0, 1, 0, 3, 0, 1, 0, 0, 0})
			add(2, 3, []int{1, 2, 0, 3, 0, 0, 1, 0, 0, 4, 1, 1, 2, 0})
			add(3, 2, []int{0, 1, 3, 0, 1, 1, 3, 1, 0, 0, 0, 4, 0, 1, 0, 0})
			n := q(tier, 300, 1500)
			r := uint64(seed)*2654435761 + 12345
			for i := 0; i < n; i++ {
				var digits []int
				for k := 0; k < 24; k++ {
					r = r*6364136223846793005 + 1442695040888963407
					digits = append(digits, int((r>>33)%60))
				}
				depth := 2
				if i%3 == 2 {
					depth = 3
				}
				add(depth, 2+i%2, digits)
			}
			return out
		},
		boundsText: map[string]string{
			"quick":    "303 trees (3 hand-picked + 300 drawn from VERIF_SEED) of depth<=3, width<=3 with text leaves, nil slots, Conditions (native, alias, pointer to alias) with text or Stack / Stack-alias expressions, nested Stacks and Stack aliases; every path length 0..depth+2 with every index an unconstrained 64-bit variable; all eight option bits of every node symbolic",
			"thorough": "1503 trees, same generator",
		},
		outside: "trees outside the sampled set / deeper or wider than the bound",
		assumptions: []string{"tree shapes are enumerated (concrete); the solver covers all index values and index-option bits for each shape"},
	})

	register(&property{
		id: "C14",
		gen: func(tier string, seed int) []symx.CaseSpec {
			var out []symx.CaseSpec
			for n := 0; n <= q(tier, 2, 3); n++ {
				for m := 0; m <= q(tier, 3, 4); m++ {
					for capMode := 0; capMode <= 1; capMode++ {
						out = append(out, cs("VH_C14_Push", n, m, capMode))
						if capMode == 0 && m >= 1 {
							out = append(out, cs("VH_C14_Push", n, m, capMode, 1)) // offered through Transfer
						}
					}
				}
			}
			for k := 0; k < 5; k++ {
				out = append(out, cs("VH_C14_StackClosures", k))
			}
			out = append(out, cs("VH_C14_CondClosures"))
			for k := 0; k <= 3; k++ {
				out = append(out, cs("VH_C14_CondValidityDecides", k))
			}
			return out
		},
		boundsText: map[string]string{
			"quick":    "push policy: existing length<=2, batches<=3 of {text, nil, nested Stack}, each consultation's verdict an arbitrary boolean (solver variable), capacity field none or any value in [n+1,n+3], other options symbolic; closures: every ordered pair of install/remove steps over validity, presentation, equality, unmarshal, marshal (and Evaluate on Conditions) on every stack kind, closure verdicts symbolic",
			"thorough": "as quick with existing length<=3 and batches<=4",
		},
		outside: "policies with side effects on the stack itself; longer install/remove sequences",
	})

	register(&property{
		id: "C16",
		gen: func(tier string, seed int) []symx.CaseSpec {
			var out []symx.CaseSpec
			for n := 0; n <= q(tier, 2, 3); n++ {
				for spread := 0; spread <= 1; spread++ {
					for recv := 0; recv <= 2; recv++ {
						if recv == 2 && n > 2 {
							continue
						}
						out = append(out, cs("VH_C16_Flat", n, spread, recv))
					}
				}
			}
			for f := 0; f <= q(tier, 4, 5); f++ {
				out = append(out, cs("VH_C16_CondRow", f, 0, 0, q(tier, 6, 10)), cs("VH_C16_CondRow", f, 1, 1, q(tier, 5, 10)))
			}
			for lv := 0; lv <= 3; lv++ {
				for inner := 0; inner <= 3; inner++ {
					out = append(out, cs("VH_C16_Envelope", lv, inner))
				}
			}
			n := q(tier, 150, 2000)
			r := uint64(seed)*2654435761 + 99
			for i := 0; i < n; i++ {
				var digits []int
				for k := 0; k < 30; k++ {
					r = r*6364136223846793005 + 1442695040888963407
					digits = append(digits, int((r>>33)%228))
				}
				out = append(out, cs("VH_C16_Junk", append([]int{1 + i%2, i % 2}, digits...)...))
			}
			return out
		},
		boundsText: map[string]string{
			"quick":    "flat inputs of 0..2 entries, every combination of 19 entry kinds (labels in three casings, junk/empty strings, int, float, nil, typed nil, built-in operator with ANY 8-bit code, user operators valid/empty, ready-made Stack/Condition), spread and enveloped, zero and initialised (capacity symbolic) receivers; CONDITION rows with 0..4 fields, every combination of 6 (thorough: 10) kinds per field plus nested envelopes, alone and nested in an AND stack; envelopes wrapped 0..3 times around empty/leaf/stack/condition; 150 nested junk trees (depth<=2, <=3 entries per level) drawn from VERIF_SEED",
			"thorough": "flat inputs up to 3 entries, CONDITION rows up to 5 fields, 2000 junk trees",
		},
		outside: "inputs wider/deeper than the bound; custom marshalers (C14)",
	})

	register(&property{
		id: "C04",
		gen: func(tier string, seed int) []symx.CaseSpec {
			var out []symx.CaseSpec
			// hand-picked: empty stacks of every kind, nested empties, condition forms
			for k := 0; k < 5; k++ {
				out = append(out, cs("VH_C04", 1, 2, k, 0), cs("VH_C04_Equal", 1, 2, k, 0))
				out = append(out, cs("VH_C04", 2, 2, k, 1, 5, k, 0), cs("VH_C04", 2, 2, k, 2, 7, 1, 1, 0, 4, 2))
			}
			n := q(tier, 1500, 9000)
			r := uint64(seed)*2654435761 + 4
			for i := 0; i < n; i++ {
				var digits []int
				for k := 0; k < 40; k++ {
					r = r*6364136223846793005 + 1442695040888963407
					digits = append(digits, int((r>>33)%840))
				}
				depth := 2 + i%2
				h := "VH_C04"
				if i%3 == 2 {
					h = "VH_C04_Equal"
				}
				out = append(out, cs(h, append([]int{depth, 2 + i%2}, digits...)...))
			}
			return out
		},
		boundsText: map[string]string{
			"quick":    "20 hand-picked + 1500 seeded trees of depth<=3, width<=3 over AND/OR/NOT/LIST/BASIC (empty stacks included), Conditions with primitive/Stack/Condition expressions, text/int/bool/nil leaves; leaf ints are unconstrained 64-bit variables, leaf bools and all option bits of the root symbolic; the first operator code any of 1..6 (solver variable), the others, user-defined operators, option sets (fold / read-only / display / index+no-nesting) and operator symbols of inner nodes drawn with the shape",
			"thorough": "20 hand-picked + 9000 seeded trees",
		},
		outside: "leaves that are themselves []any; custom (un)marshalers (C14); Conditions without operator (C06/C16 inputs); capacities (Unmarshal does not carry them)",
	})

	register(&property{
		id: "C20",
		gen: func(tier string, seed int) []symx.CaseSpec {
			var out []symx.CaseSpec
			// the repository's own test shape first: chains of single children
			out = append(out, cs("VH_C20", 3, 2, 0, 1, 1, 0, 3, 0, 1, 1, 0, 3, 0, 1, 1, 0, 0))
			out = append(out, cs("VH_C20", 3, 2, 0, 1, 1, 0, 5, 0, 1, 1, 0, 2))
			out = append(out, cs("VH_C20", 2, 2, 3, 1, 1, 0, 3, 0, 1, 0, 0, 0))
			for k := 0; k <= 13; k++ {
				out = append(out, cs("VH_C20_Named", k))
			}
			n := q(tier, 200, 1500)
			r := uint64(seed)*2654435761 + 20
			for i := 0; i < n; i++ {
				var digits []int
				for k := 0; k < 48; k++ {
					r = r*6364136223846793005 + 1442695040888963407
					digits = append(digits, int((r>>33)%360))
				}
				depth := 2 + i%3
				if tier != "thorough" && depth > 3 {
					depth = 3
				}
				out = append(out, cs("VH_C20", append([]int{depth, 1 + i%3}, digits...)...))
			}
			return out
		},
		boundsText: map[string]string{
			"quick":    "13 hand-built shapes (folded / symbol-bearing NOT wrappers, mutex-enabled envelopes at every slot, chains, typed nil children, read-only mutex-enabled nested nodes, zero instances in the first slot, unusable receivers; parenthetical bits symbolic; a second Reveal) + 3 hand-picked + 200 seeded trees of depth<=3, width<=3 (single-child chains favoured) over AND/OR/NOT/LIST with text/int leaves, Conditions holding text or Stacks, empty stacks, mutex-enabled nodes, case-folded and symbol-bearing nodes, nested stacks held natively / as alias / as pointer; the parenthetical bit of every Condition and the parenthetical, index-option and read-only bits of the first five Stack nodes of a tree are solver variables (further nodes: drawn with the shape; a tree has at most ~9 nested Stack nodes)",
			"thorough": "3 hand-picked + 1500 seeded trees of depth<=4",
		},
		outside: "trees outside the sampled shapes; aliases as nodes (C12)",
		assumptions: []string{"deadlock = sync.Mutex.Lock on a mutex the single engine thread already holds (engine lock table)"},
	})

	register(&property{
		id: "C19",
		gen: func(tier string, seed int) []symx.CaseSpec {
			var out []symx.CaseSpec
			maxN := q(tier, 6, 9)
			for n := 0; n <= maxN; n++ {
				// flat, default options: without and with a scan limit
				out = append(out, cs("VH_C19", n, 0, 0, 0), cs("VH_C19", n, 0, 1, 0))
				if n <= q(tier, 5, 6) {
					for opts := 1; opts <= 3; opts++ {
						out = append(out, cs("VH_C19", n, 0, 0, opts), cs("VH_C19", n, 0, 1, opts))
					}
				}
				// nested: inside a Stack, as a Condition's expression, two levels
				// down through a Condition, nested before no-nesting was switched
				// on, behind a pointer to an alias
				if n <= 7 {
					for where := 1; where <= 5; where++ {
						out = append(out, cs("VH_C19", n, where, 0, 0))
						if n <= q(tier, 4, 5) {
							out = append(out, cs("VH_C19", n, where, 1, 0))
						}
					}
				}
			}
			return out
		},
		boundsText: map[string]string{
			"quick":    "every nil/non-nil pattern of length 0..6 (flat, default index options; 0..5 with negative / forward / both index options) and 0..7 nested (inside a Stack, as a Condition's expression, two levels down through a Condition, nested before SetNoNesting, behind a pointer to an alias); scan limit: absent, or any int larger than the longest nil run (solver variable; nested: length 0..4)",
			"thorough": "every pattern of length 0..9 (flat), 0..6 with index options, 0..7 nested (0..5 with a limit)",
		},
		outside: "patterns longer than the bound; limits not exceeding the longest nil run (outside the statement's precondition)",
		assumptions: []string{"known findings are keyed by the nil pattern (a letter per element, '.' per nil) and the failing assertion"},
	})

	register(&property{
		id: "C05",
		gen: func(tier string, seed int) []symx.CaseSpec {
			var out []symx.CaseSpec
			// one case per leaf type as sole content, all mutations
			for t := 0; t < 12; t++ {
				for mut := 0; mut <= 7; mut++ {
					out = append(out, cs("VH_C05", 1, 4, mut, 0, 1, t, 1))
				}
				for mut := 0; mut <= 6; mut++ {
					if t < 11 {
						out = append(out, cs("VH_C05_Cond", t, mut))
					}
				}
			}
			for t := 16; t <= 18; t++ { // leaf types 12..14: spare-capacity slices, interface-field struct
				for mut := 0; mut <= 7; mut++ {
					out = append(out, cs("VH_C05", 1, 4, mut, 0, 0, t, 1))
				}
			}
			// spare-capacity slices of different length against each other
			out = append(out, cs("VH_C05_SliceLen"))
			// pointer elements (nil or not), nested slices, interface-typed members
			for form := 0; form <= 11; form++ {
				for where := 0; where <= 2; where++ {
					for nlx := 0; nlx <= 3; nlx++ {
						for nly := 0; nly <= 3; nly++ {
							if (form == 2 || form == 7 || form == 8 || form == 10) && (nlx > 0 || nly > 0) {
								continue // no nil-able members
							}
							out = append(out, cs("VH_C05_Extra", form, nlx, nly, where))
						}
					}
				}
			}
			for k := 0; k <= 6; k++ {
				out = append(out, cs("VH_C05_Hidden", k))
			}
			n := q(tier, 800, 4000)
			r := uint64(seed)*2654435761 + 5
			for i := 0; i < n; i++ {
				var digits []int
				for k := 0; k < 30; k++ {
					r = r*6364136223846793005 + 1442695040888963407
					digits = append(digits, int((r>>33)%1680))
				}
				depth := 1 + i%2
				if tier == "thorough" && i%5 == 4 {
					depth = 3
				}
				out = append(out, cs("VH_C05", append([]int{depth, 3 + i%3, i % 8}, digits...)...))
			}
			return out
		},
		boundsText: map[string]string{
			"quick":    "every leaf type (int, string, bool, *int, **int, []int, [3]int, map[string]int, struct, struct with unexported field, nil) as content with every mutation {none, swap siblings, one more, one fewer, other kind, other capacity, same capacity + one fewer, same capacity + equal}; slices with spare capacity and a struct whose interface field holds a slice; Conditions over every leaf type x {keyword, operator, expression-type} mutations with operator codes symbolic; pointer elements nil or not ([]*int, [2]*int), [][]int, map[string]any / structs / *structs whose interface member is nil on either side, map[int]int, []any, as root leaf / two levels down / Condition expression; kind, keyword, type differences hidden behind a shared symbol or an absent part; comparands that are no Condition; 800 seeded trees (depth<=2, width<=3, <=5 scalar variables per side) sharing one symbolic option word and symbol; every scalar leaf value is a pair of unconstrained 64-bit variables",
			"thorough": "as quick with 4000 seeded trees, every fifth of depth 3",
		},
		outside: "floats/NaN, funcs, chans, typed-nil pointers as compared leaves; custom equality policies (C14); case-folded kinds",
		assumptions: []string{"the reference verdict is computed by a plain comparison over the harness's closed type universe"},
	})

	register(&property{
		id: "C12",
		gen: func(tier string, seed int) []symx.CaseSpec {
			var out []symx.CaseSpec
			for k := 0; k <= 24; k++ {
				out = append(out, cs("VH_C12_Convert", k))
			}
			// every conversion after every other kind of value has been converted
			for k := 0; k <= 24; k++ {
				for e := 0; e <= 24; e++ {
					if tier == "thorough" || e >= 19 || e == 12 || (k+e)%5 == 0 {
						out = append(out, cs("VH_C12_Convert", k, e))
					}
				}
			}
			// hand-picked: a condition whose expression is a stack alias; nested stack; nested condition
			out = append(out, cs("VH_C12", 2, 2, 0, 0, 5, 1, 0, 0))
			out = append(out, cs("VH_C12", 2, 2, 0, 1, 3, 1, 1, 0, 2))
			out = append(out, cs("VH_C12", 2, 1, 1, 0, 2))
			n := q(tier, 40, 400)
			r := uint64(seed)*2654435761 + 12
			for i := 0; i < n; i++ {
				var digits []int
				for k := 0; k < 30; k++ {
					r = r*6364136223846793005 + 1442695040888963407
					digits = append(digits, int((r>>33)%180))
				}
				out = append(out, cs("VH_C12", append([]int{2, 1 + i%3}, digits...)...))
			}
			return out
		},
		boundsText: map[string]string{
			"quick":    "ConvertStack/ConvertCondition on 19 value forms (incl. pointers to zero-valued aliases, double pointers) and holders of such values; 3 hand-picked + 40 seeded trees of depth<=2, width<=3 in which up to 3 nested Stacks/Conditions are each independently native / alias / alias with String / pointer to alias (all 4^k combinations by fork); Traverse paths of length 1-3 with unconstrained indices",
			"thorough": "as quick with 400 seeded trees",
		},
		outside: "aliases deeper than the third nested position of a tree (kept native); trees outside the sample",
	})

	register(&property{
		id: "C02",
		gen: func(tier string, seed int) []symx.CaseSpec {
			var out []symx.CaseSpec
			for k := 0; k <= 12; k++ {
				out = append(out, cs("VH_C02_Named", k))
			}
			n := q(tier, 300, 1500)
			r := uint64(seed)*2654435761 + 2
			for i := 0; i < n; i++ {
				var digits []int
				for k := 0; k < 60; k++ {
					r = r*6364136223846793005 + 1442695040888963407
					digits = append(digits, int((r>>33)%5040))
				}
				depth := 1 + i%3
				symTxt := q(tier, 1, 2)
				if i%4 == 0 {
					symTxt = 0
				}
				out = append(out, cs("VH_C02", append([]int{depth, 2 + i%2, symTxt, 1 + i%2}, digits...)...))
			}
			return out
		},
		boundsText: map[string]string{
			"quick":    "13 hand-built trees for the cases the statement names (two of them rendered, re-configured and rendered again) + 300 seeded trees of depth<=3, width<=3 over AND/OR/NOT/LIST/BASIC with text/int/bool leaves, Conditions (padding, paren, encap variants) and nested stacks; the option bits (paren, fold, no-padding, lead-once) of the first 1-2 nodes are solver variables, the others drawn with the shape; symbol none/1/2 bytes, delimiter none/1/2 bytes, encapsulation none/single/pair/single+pair; one text leaf of 0..2 unconstrained bytes (all 256 values: blank, tab, NUL, UTF-8 lead and continuation bytes), the other leaves from a fixed list incl. multi-byte UTF-8, embedded blanks/tabs and the empty string",
			"thorough": "1500 trees, two symbolic text leaves",
		},
		outside: "leaves longer than 2 symbolic bytes; lead-once on LIST stacks (statement silent); nil / unknown-typed elements (render as UNKNOWN, outside the statement's domain); presentation policies (C14); aliases (C12)",
		assumptions: []string{"where the statement does not say where blanks go, the reference grammar is the one pinned by the repository's tests (leaves padded unless no-padding; nested renderings inserted as they are; word operators always blank-separated; symbols/delimiters blank-separated only under padding; LIST without delimiter: one blank under padding, nothing under no-padding)"},
	})

	register(&property{
		id:    "C10",
		sched: true,
		gen: func(tier string, seed int) []symx.CaseSpec {
			var out []symx.CaseSpec
			nops := q(tier, 6, 8)
			for n := 0; n <= q(tier, 2, 3); n++ {
				for _, fifo := range []int{0, 1} {
					for _, ucap := range []int{0, n + 1} {
						out = append(out, cs("VH_C10", n, 2, 1, nops, ucap, fifo))
					}
				}
			}
			// a second SetMutex among the operations; an accept-all push policy installed
			out = append(out, cs("VH_C10", 1, 2, 1, 9, 0, 0), cs("VH_C10", 1, 2, 1, 2, 0, 0, 1), cs("VH_C10", 1, 2, 1, 2, 2, 1, 1))
			out = append(out, cs("VH_C10", 1, 2, 1, 2, 0, 0, 2), cs("VH_C10", 1, 2, 1, 2, 2, 0, 2)) // a rejecting validity policy
			// whole-list operations against the ones that change the length
			out = append(out, cs("VH_C10", 2, 2, 1, 10, 0, 0), cs("VH_C10", 3, 2, 1, 10, 0, 1))
			if tier == "thorough" {
				out = append(out, cs("VH_C10", 2, 2, 1, 4, 3, 0, 1))
				out = append(out, cs("VH_C10", 1, 3, 1, 2, 0, 0), cs("VH_C10", 2, 3, 1, 2, 2, 1), cs("VH_C10", 1, 2, 2, 2, 0, 0), cs("VH_C10", 1, 2, 2, 2, 2, 1))
			}
			return out
		},
		boundsText: map[string]string{
			"quick":    "2 goroutines x 1 operation each from {Push, Pop, Insert, Remove, Replace, Swap} on a mutex-enabled LIST of length 0..2, LIFO and FIFO, without capacity and with capacity n+1; the same with {Push, Pop, SetMutex-again} and with an accept-all push policy installed ({Push, Pop}); every interleaving at lock-acquisition granularity (scheduler choices are decisions of the path search); index arguments symbolic in [-1, n+2]",
			"thorough": "as quick with all 8 mutators and length 0..3; plus 3 goroutines x 1 operation from {Push, Pop} and 2 goroutines x 2 operations from {Push, Pop} on stacks of length 1-2",
		},
		outside: "free-running executions on 16 cores and weak-memory effects (the engine is sequentially consistent and pre-empts only at lock points; unsynchronised accesses between lock points are reported by the lockset log instead and confirmed natively under the Go race detector); index options; more goroutines or longer sequences",
		assumptions: []string{"context switches only just before sync.Mutex.Lock, after sync.Mutex.Unlock, at goroutine end and in the join", "lockset discipline: two accesses to the same shared cell from different goroutines, at least one a write, not both made while holding a mutex, are a race candidate"},
	})
}

var _ = fmt.Sprint
