package main

import (
	"fmt"

	"gosx/symx"
)

// A property is decided by a set of cases (harness + concrete shape
// parameters) per tier.
type property struct {
	id          string
	gen         func(tier string, seed int) []symx.CaseSpec
	boundsText  map[string]string
	outside     string
	assumptions []string
	paths       map[string]int
}

func (p *property) cases(tier string, seed int) []symx.CaseSpec { return p.gen(tier, seed) }
func (p *property) bounds(tier string) string                   { return p.boundsText[tier] }
func (p *property) maxPaths(tier string) int {
	if n, ok := p.paths[tier]; ok {
		return n
	}
	if tier == "thorough" {
		return 2_000_000
	}
	return 300_000
}

var properties = map[string]*property{}

func register(p *property) { properties[p.id] = p }

func cs(h string, params ...int) symx.CaseSpec { return symx.CaseSpec{Harness: h, Params: params} }

func q(tier string, quick, thorough int) int {
	if tier == "thorough" {
		return thorough
	}
	return quick
}

func init() {
	register(&property{
		id: "C08",
		gen: func(tier string, seed int) []symx.CaseSpec {
			var out []symx.CaseSpec
			maxN := q(tier, 4, 6)
			maxSlack := q(tier, 1, 2)
			for n := 0; n <= maxN; n++ {
				for slack := 0; slack <= maxSlack; slack++ {
					if slack > 0 && n > q(tier, 2, 4) {
						continue
					}
					for _, h := range []string{"VH_C08_Index", "VH_C08_Replace", "VH_C08_Swap", "VH_C08_Remove", "VH_C08_Insert", "VH_C08_LessDefrag"} {
						out = append(out, cs(h, n, slack))
					}
					for l := 0; l <= 3; l++ {
						out = append(out, cs("VH_C08_Traverse", n, slack, l))
					}
				}
			}
			for k := 0; k < 5; k++ {
				out = append(out, cs("VH_C08_Ctor", k))
			}
			return out
		},
		boundsText: map[string]string{
			"quick":    "stack length n<=4 (spare capacity<=1 for n<=2), Traverse path length<=3, constructor capacity argument<=64; every int argument, option bits, kind, FIFO flag, capacity field: all values",
			"thorough": "stack length n<=6 (spare capacity<=2 for n<=4), Traverse path length<=3, constructor capacity argument<=64; every int argument, option bits, kind, FIFO flag, capacity field: all values",
		},
		outside: "stacks longer than the bound; constructor capacities above 64 (allocation size only); element values outside the harness catalogue",
		assumptions: []string{
			"pre-states are arbitrary stacks satisfying the representation invariant Inv (slot 0 = configuration, kind in {AND,OR,NOT,LIST,BASIC}, capacity field 0 or >= len, only the eight settable option bits)",
		},
	})

	register(&property{
		id: "C01",
		gen: func(tier string, seed int) []symx.CaseSpec {
			var out []symx.CaseSpec
			maxN, maxSlack, maxM := q(tier, 3, 5), q(tier, 1, 2), q(tier, 2, 3)
			for n := 0; n <= maxN; n++ {
				for slack := 0; slack <= maxSlack; slack++ {
					for op := 0; op < 8; op++ {
						if op == 0 {
							for m := 0; m <= maxM; m++ {
								out = append(out, cs("VH_C01_Step", n, slack, m, op))
							}
						} else {
							out = append(out, cs("VH_C01_Step", n, slack, 0, op))
						}
					}
				}
			}
			out = append(out, cs("VH_C01_Hist", 1, 2, 2))
			out = append(out, cs("VH_C01_Hist", 2, 1, 2))
			if tier == "thorough" {
				out = append(out, cs("VH_C01_Hist", 2, 2, 3))
				out = append(out, cs("VH_C01_Hist", 3, 1, 2))
			}
			return out
		},
		boundsText: map[string]string{
			"quick":    "one-step induction from an arbitrary Inv pre-state: length n<=3, spare capacity<=1, push batch<=2 (nil values by fork), all 8 mutators, all index arguments; histories of 2 operations from every constructor (capacity 0..2, LIFO/FIFO)",
			"thorough": "one-step induction from an arbitrary Inv pre-state: length n<=5, spare capacity<=2, push batch<=3; histories of up to 3 operations from every constructor (capacity 0..3, LIFO/FIFO)",
		},
		outside: "stacks longer than the bound (covered only through the inductive argument with Inv as hypothesis); elements that are Stacks/Conditions (irrelevant to ordering)",
		assumptions: []string{
			"inductive hypothesis Inv (DESIGN §3.11): the pre-state is any stack with slot 0 = configuration, capacity field 0 or >= len, option bits within the eight settable ones; base case = the constructors (history harness)",
			"indices of Remove/Replace/Swap address existing positions (as the statement says); Insert takes any int",
			"leniency: Remove(i) of a nil element may either remove it or report failure; the success flag of Pop on a nil element is not constrained; Front/Back are constrained only when that end's element is non-nil or all elements are nil",
		},
	})

	register(&property{
		id: "C03",
		gen: func(tier string, seed int) []symx.CaseSpec {
			var out []symx.CaseSpec
			maxN := q(tier, 3, 5)
			for n := 0; n <= maxN; n++ {
				for slack := 0; slack <= 1; slack++ {
					for op := 0; op <= 6; op++ {
						switch op {
						case 0, 2:
							for m := 0; m <= 3; m++ {
								out = append(out, cs("VH_C03_Step", n, slack, m, op))
							}
						default:
							out = append(out, cs("VH_C03_Step", n, slack, 0, op))
						}
					}
				}
			}
			out = append(out, cs("VH_C03_Hist", 2, 2, 2))
			if tier == "thorough" {
				out = append(out, cs("VH_C03_Hist", 3, 2, 3))
			}
			for k := 0; k < 5; k++ {
				out = append(out, cs("VH_C08_Ctor", k))
			}
			return out
		},
		boundsText: map[string]string{
			"quick":    "length n<=3, capacity field any value in [n+1,n+4] or none, push/transfer batches<=3, one step of Push/Insert/Transfer/Marshal/Pop/Remove/Reset; histories of 2 steps from constructors with capacity 0..2; constructor capacity argument any int <=64",
			"thorough": "length n<=5, capacity field any value in [n+1,n+4] or none, batches<=3; histories of 3 steps from constructors with capacity 0..3",
		},
		outside: "capacities further than 3 above the current length (behave as far from the boundary); stacks longer than the bound",
		assumptions: []string{"pre-state satisfies Inv; capacity field c means user capacity c-1"},
	})
}

var _ = fmt.Sprint
